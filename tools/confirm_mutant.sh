#!/bin/sh
# usage: confirm_mutant.sh <dir with patch.diff demo.py notes.md> <seed-id e.g. C01-m1> <property>
# Confirms in a scratch worktree: tests unchanged with the patch, demo fails with / passes without. Then stores under /verif/seeded/<seed-id>/.
set -u
SRC=$1; ID=$2; PROP=$3
WT=/tmp/wt/confirm_$ID
git -C /repo worktree add -q "$WT" HEAD || exit 3
cd "$WT"
git apply "$SRC/patch.diff" || { echo "patch does not apply"; git -C /repo worktree remove --force "$WT"; exit 3; }
TESTS=$(/venv/bin/python -m pytest -q -p no:cacheprovider --timeout=900 2>&1 | tail -1)
PYTHONPATH="$WT" /venv/bin/python "$SRC/demo.py" > /tmp/confirm_$ID.with 2>&1; WITH=$?
git checkout -q -- .
PYTHONPATH="$WT" PYTHONPATH="$WT" /venv/bin/python "$SRC/demo.py" > /tmp/confirm_$ID.without 2>&1; WITHOUT=$?
cd /; git -C /repo worktree remove --force "$WT"
echo "$ID: tests='$TESTS' demo_with=$WITH demo_without=$WITHOUT"
case "$TESTS" in *"92 passed"*) ;; *) echo "REJECT: tests changed"; exit 1;; esac
[ "$WITH" = 1 ] && [ "$WITHOUT" = 0 ] || { echo "REJECT: demo exits"; exit 1; }
D=/verif/seeded/$ID; mkdir -p "$D"
cp "$SRC/patch.diff" "$SRC/demo.py" "$D/"; [ -f "$SRC/notes.md" ] && cp "$SRC/notes.md" "$D/"
python3 - "$D" "$ID" "$PROP" "$TESTS" <<'PY'
import json,sys,os
d,i,p,t=sys.argv[1:5]
notes=open(os.path.join(d,'notes.md')).read() if os.path.exists(os.path.join(d,'notes.md')) else ''
json.dump(dict(id=i,property=p,needs=notes[:1500],confirmed=dict(test_suite_with_patch=t,demo_exit_with_patch=1,demo_exit_without_patch=0,
  how="scratch worktree of /repo HEAD; git apply patch.diff; pytest; demo.py; git checkout; demo.py (tools/confirm_mutant.sh)"),detected_by=None),open(os.path.join(d,'meta.json'),'w'),indent=1)
PY
echo "KEPT $D"
