#!/bin/sh
# runs every seeded change against the check(s) of its property in scratch worktrees; writes /verif/seeded/MATRIX.tsv and meta.json.detected_by
cd /verif
OUT=seeded/MATRIX.tsv
: > $OUT
run() { # id prop
  RES=$(SHOW=1 timeout 1500 tools/run_seeded_wt.sh "$1" "$2" 2>&1 | head -1)
  RC=$(echo "$RES" | sed -n 's/.*exit=\([0-9]*\).*/\1/p')
  echo "$1	$2	${RC:-timeout}" >> $OUT
  echo "$1 $2 -> ${RC:-timeout}"
}
for p in C01 C02 C03 C04 C05 C06 C07 C08 C09 C10 C12 C13 C14 C15 C16 C17 C18 C19 C20; do
  for m in m1 m2; do run $p-$m $p; done
done
run C07-m1 C05; run C05-m2 C09; run C04-m2 C03; run C03-m2 C04; run C03-m2 C15; run C09-m2 C05
run revert-aa1317a C01; run revert-4d324fd C13; run revert-a9bc1b1 C05; run revert-70c07ce C05; run revert-933030d C05; run revert-27dc49a C05
run revert-5fcc9d7 C04; run revert-8765e36 C06; run revert-7bcc7e5 C07; run revert-85af4e6 C10; run revert-65f4b03 C04; run revert-32e6969 C05
run revert-0aa3c4e C03; run revert-0aa3c4e C14; run revert-e5ed404 C06
python3 - <<'PY'
import json,os,collections
d=collections.defaultdict(list)
for l in open('/verif/seeded/MATRIX.tsv'):
    i,p,rc=l.rstrip('\n').split('\t'); d[i].append((p,rc))
for i,v in d.items():
    mp=f'/verif/seeded/{i}/meta.json'
    meta=json.load(open(mp)) if os.path.exists(mp) else dict(id=i)
    meta['checks_run']=[dict(check=p,exit=rc,meaning={'1':'VIOLATION (replayed)','2':'INCONCLUSIVE (non-zero, no replayed witness)','0':'not detected'}.get(rc,rc)) for p,rc in v]
    meta['detected_by']=[p for p,rc in v if rc=='1'] or None
    json.dump(meta,open(mp,'w'),indent=1)
PY
echo MATRIX DONE
