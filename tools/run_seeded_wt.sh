#!/bin/sh
# usage: run_seeded_wt.sh <seed-id> <property> [extra vcheck args]  -- like run_seeded.sh but in a scratch worktree (parallel-safe; /repo untouched)
ID=$1; PROP=$2; shift 2
WT=/tmp/wt/seed_${ID}_$$
git -C /repo worktree add -q "$WT" HEAD || exit 3
git -C "$WT" apply /verif/seeded/$ID/patch.diff || { git -C /repo worktree remove --force "$WT"; exit 3; }
cd /verif && VERIF_EVIDENCE_DIR=/tmp/seeded_evidence VERIF_REPO="$WT" ./vcheck $PROP "$@" > /tmp/seeded_$ID.$PROP.log 2>&1; RC=$?
git -C /repo worktree remove --force "$WT"
echo "== $ID vs $PROP: exit=$RC"; grep -E "VIOLATION|KNOWN-FINDING|INCONCLUSIVE|^OK" /tmp/seeded_$ID.$PROP.log | cut -c1-260 | head -${SHOW:-4}
exit $RC
