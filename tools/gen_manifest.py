#!/usr/bin/env python3
"""Regenerates MANIFEST.json from the table below (kept in one place so that it is always valid)."""
import json, os
ROOT = os.path.dirname(os.path.dirname(os.path.abspath(__file__)))
TECH = "bounded symbolic execution of the real dreye functions on z3-backed numpy object arrays; each clause decided by an SMT (z3) unsat query; sat models replayed on the unpatched code"
NOTE_COMMON = ("Reals, not floats. Shapes are bounded as stated in the evidence file (contents are fully symbolic). Compiled components are replaced by the contract "
               "stubs listed in DESIGN.md section 3 and in the evidence; a sat model is reported only after it reproduces on the unpatched code; unknown => exit 2. Every case also carries the generic clause that the arrays handed in by "
               "the caller are not modified. Cases named 'integer-typed', 'numpy scalar' or 'after an earlier ...' are decided by the run of the real code on sampled inputs "
               "(typing and byte-keyed caches are invisible to real arithmetic; see DESIGN.md section 7).")
CHECKS = {
 "C07": ("real lsq_linear(model='poisson') and lsq_linear_excitation (and estimator.fit dispatch) on symbolic systems through the cvxpy shim: per row bounds, prediction identity, global "
         "optimality of the documented objective (weighted Poisson NLL with ln uninterpreted; largest excitation difference via the proved rational form), feasibility, and the "
         "in-gamut agreement reduced to closed lemmas that z3 proves (the two facts about ln used are stated)", "4 C07"),
 "C08": ("real lsq_linear_underdetermined / fit_underdetermined on symbolic systems for every option ('l2','min','max','var', number, vector): reproduces within l2_eps, bounds, "
         "optimal secondary goal over all in-bound reproducing intensities (contract instance at an arbitrary competitor), feasibility whenever the target is reproducible, documented guards", "4 C08"),
 "C09": ("real lsq_linear_minimize / minimize_variance, both stages symbolic: first stage is the ordinary fit, fit quality <= best error + l2_eps, L1 window, minimal summed variance among "
         "all such intensities, <= variance of the ordinary fit, reported variance == variance model (K**2 propagation, default Epsilon), stacked problem feasible incl. padded rows", "4 C09"),
 "C10": ("real lsq_linear_adaptive / fit_adaptive on symbolic systems: returned intensities and scales satisfy the documented total / offset constraints and the bounds, no feasible "
         "pair is better for 'unity' / 'max' (contract instance at an arbitrary competitor pair), feasibility, all-in-gamut => scales (1,1) via a closed lemma, prediction identity, name guard", "4 C10"),
 "C16": ("the real transformer loop with exact algebraic square roots: unit pairwise distances for n=2..9 (12 thorough) and unreachable internal assertion; affine map; exact inverse "
         "round trip in both directions (n<=4) incl. L1 and centring, on the caller's own array; scale invariance of the chromatic reduction; n-sphere conversion through the real code with an angle abstraction: radius, angle "
         "ranges and round trip for every point incl. zero patterns (dimension 2-3, 4 thorough)", "4 C16"),
 "C20": ("real irr2flux / flux2irr with the real pint registry on symbolic magnitudes: equals I*lambda/(h c N_A) with the exact SI constants to rel 1e-12, exact inverse, linear, "
         "axis= variant == broadcast form, same numbers for plain arrays and quantities in several units, requested prefix/unit returned; a conversion preceded in the same process by conversions with another prefix follows the law for its own prefix", "4 C20"),
 "C03": ("real in_hull_from_A / estimator.in_hull on fully symbolic systems with a two-sided Delaunay contract stub: reported-in => reproducible in bounds (witness = convex weights "
         "of the box corners) and capture of in-bound intensities => reported-in (multilinear corner weights), i.e. corner enumeration, K/baseline applied once, offset subtraction on "
         "both sides, relative=False; NNLS fallback (fewer sources than receptors) through the cvxpy shim", "4 C03"),
 "C06": ("real _range_of_solutions / range_of_solutions / _spaced_solutions with a CONCRETE catalogue of capture matrices and symbolic target, bounds and baseline: every path of the "
         "candidate enumeration explored; z3 decides soundness for every reproducing intensity vector, attainment of each end (quantified linear arithmetic), spaced solutions in "
         "bounds and reproducing, out-of-gamut behaviour; perturbed-comparison layer for rounding sensitivity (known finding F10); integer-typed bounds decided by the run of the real "
         "code on sampled inputs (truncation is invisible to real arithmetic)", "4 C06"),
 "C14": ("histories of registration calls and queries (all single steps, pairs over the mutator alphabet, queries sandwiched with mutators; every argument a fresh symbol) applied to a "
         "real estimator; z3 proves term-wise equality of all observables (captures, clouds/targets handed to the membership oracle, bound test, the least-squares problem handed "
         "to the solver, prediction) with a fresh estimator built from the registered values of a stateless reference model; caller arrays compared element-wise before/after every call", "4 C14"),
 "C15": ("twin runs related by symbolic unit changes s, c > 0: the cloud and targets handed to the membership oracle scale by exactly c (verdicts equal by the contract with the same "
         "weights), s*(fit in new units) is an optimum of the original problem and predictions scale by c; range / spaced-solution twins on the concrete catalogue for an (s,c) grid "
         "spanning 1e-4..1e4: ends and spaced solutions scale by exactly 1/s on every path (integer-typed bounds: run of the real code on sampled inputs)", "4 C15"),
 "C19": ("real equalize_domains / estimator.capture(domain=) on symbolic monotone domains (plus concrete integer-typed and concrete unsorted zig-zag domains) and symbolic arrays with an interp1d contract stub: common grid = [max of minima, min of maxima], "
         "uniform, point count = round(overlap / coarsest mean step)+1, each array interpolated from its own domain along its own axis (compared with the harness's own "
         "interpolation), identical domains untouched, rejection only without sufficient overlap, stack/concatenate, capture on the common grid", "4 C19"),
 "C17": ("real proj_B_to_hull with a quadprog contract stub (result in hull, nearest by an explicit competitor instance, interior points fixed), alpha_for_B_with_P / B_with_P on symbolic "
         "facets (positive multiple on the boundary, all facet inequalities, nan only when no facet is hit), line_to_simplex, all-pairs slice on symbolic clouds (on the plane, on a "
         "segment of the cloud; integer-typed clouds by the run of the real code); hull-edge branch and exactness of the slice by z3 linear arithmetic on sampled concrete clouds in 2-5 dimensions with the real qhull", "4 C17"),
 "C12": ("PARTIAL: intensity (L1) scaling decided on fully symbolic systems (one positive factor amax/bmax on the light-induced part, largest capture = smallest single-source maximum, "
         "ratios unchanged, relative and absolute capture, caller array untouched); chromatic (distance) scaling decided for DICHROMATS (concrete system, symbolic targets, every path: "
         "totals kept, one common contraction about the neutral point, all chromaticities inside the gamut, unchanged when already inside, zero rows stay zero); the tri-/tetrachromat "
         "branch of the distance scaling is NOT decided (only its caller-array clause, in C14)", "4 C12"),
 "C13": ("real sample_in_hull (pseudo-random and QMC branches) and estimator.sample_in_hull with recording stubs for the generator, Dirichlet and QMC engines, on symbolic clouds: "
         "exactly n samples, each a convex combination of the vertices of its simplex (hence in the hull / reproducible in bounds), simplex probability = volume / total volume "
         "(compared with the harness's own determinant formula, hull vertices in case-chosen orders), Dirichlet(1..1) of d+1 components, all randomness from the one seeded generator, "
         "l1 total and capture kind of the chromatic cloud; uniformity is reduced to two stated lemmas (on the real code a chi-square comparison with a reference triangulation serves as replay oracle)", "4 C13"),
 "C18": ("PARTIAL: the algebraic clauses only -- mean width (arbitrary symbolic directions from a stubbed generator): translation invariance, degree-one homogeneity (scale grid), "
         "monotone under adding a point, non-negative, 1-D = max-min; gamut metric: scale invariance and 1 relative to itself (size functional uninterpreted); Jensen-Shannon: symmetry, "
         "invariance to rescaling, similarity = 1 - divergence, negative input rejected (entropy uninterpreted); estimator.compute_hull hands the right cloud and reference. "
         "Monte-Carlo accuracy, rotation invariance, volume/PCA, superset/(0,1] and the log-based Jensen-Shannon bounds are NOT decided", "4 C18"),
 "C11": ("real lsq_linear_decomposition / fit_decomposition through the cvxpy shim with NMF and generator stubs, loop unrolled to 1 and 2 alternations plus the final refit (and the "
         "full opacity refit after subsampling): intensities within bounds / zero where masked / equal layer totals, opacities within bounds, fitted capture = P X A^T + baseline, the "
         "factor fitted last is globally optimal given the other (instance at an arbitrary competitor), every sub-problem minimises the weighted fitting error and the error never increases from one solve to the next (instances at the "
         "previous iterate), seed wiring", "4 C11"),
 "C05": ("exhaustive grid of (n_samples, batch_size) incl. non-dividing, larger-than-n and 'full' for the gaussian, poisson and excitation models: the real batching code "
         "(padding, block-diagonal stacking, scatter) runs on symbolic contents through the cvxpy shim; z3 decides per row: no exception, the result row is its own block of the "
         "stacked solution, it is optimal for its own target/weights alone (separability instance of the stacked contract), and the stacked problem is feasible whenever each row's is", "4 C05"),
 "C04": ("the real lsq_linear / ReceptorEstimator.fit run on fully symbolic A, targets, bounds, weights, K, baseline through a cvxpy shim whose solve() is a contract stub; "
         "z3 decides per target row: returned X within bounds, prediction == K(AX+baseline), global optimality of the documented weighted squared error "
         "(contract instance at an arbitrary competitor), feasibility of the problem handed to the solver, zero error <=> in gamut, and that no exception path is feasible", "4 C04"),
 "C02": ("system_capture / system_relative_capture / capture / relative_capture of a symbolic estimator (symbolic filters, sources, domain, K, baseline, intensities) equal the harness's "
         "trapezoid capture of the mixed spectrum and K(Q+baseline) as polynomial identities; the adaptation mutators give K = 1/(Q+baseline) (or K_old + that) and relative capture 1", "4 C02"),
 "C01": ("every entry of calculate_capture / integral / ReceptorEstimator.capture equals the harness's own trapezoid (or rectangle) sum as a polynomial identity over all "
         "filter, signal and domain values, for every enumerated rank/shape; linearity and scalar-step==explicit-domain as separate identities; concrete integer-typed non-uniform domain arrays (int64/int32/uint16/list)", "4 C01"),
}
NA = {}
for i in range(1, 21):
    k = f"C{i:02d}"
    if k not in CHECKS:
        NA[k] = "harness for this property not built yet in this revision (solver-based check planned, see DESIGN.md section 4)"

def main():
    m = dict(version=1, setup_cmd="./setup.sh",
             hooks=dict(guard="DREYE_VERIF", enable="no source hooks are needed: the stubs observe everything (DESIGN.md section 6); vcheck exports DREYE_VERIF=1",
                        baseline_off_cmd="cd /repo && /venv/bin/python -m pytest -ra -q -p no:cacheprovider --timeout=900 --continue-on-collection-errors",
                        source_commits=[], add_only=True),
             engines=[dict(name="vf", path="vf/", serves_properties=sorted(CHECKS), kind_free_text="own bounded symbolic executor for numpy code (object arrays of z3 reals, path forking by re-execution) + z3 4.x/5.x SMT queries")],
             checks=[], not_applicable=[dict(property_id=k, reason=v) for k, v in sorted(NA.items())],
             notes="exit 0 = all obligations unsat (or only KNOWN-FINDING lines); exit 1 = replayed VIOLATION; exit 2 = inconclusive (fails closed)")
    for k, (text, ref) in sorted(CHECKS.items()):
        m["checks"].append(dict(property_id=k, quick_cmd=f"./vcheck {k} --tier quick", thorough_cmd=f"./vcheck {k} --tier thorough",
                                evidence_file=f"/verif/evidence/{k}.json", replay_cmd_template="./vcheck replay {path}", engine="vf",
                                level_claimed=dict(category="model_checking", text=text, design_ref=ref),
                                level_note=NOTE_COMMON, technique=TECH))
    json.dump(m, open(os.path.join(ROOT, "MANIFEST.json"), "w"), indent=1)
    print("checks:", len(m["checks"]), "not_applicable:", len(m["not_applicable"]))
main()
