#!/bin/sh
# usage: run_seeded.sh <seed-id> <property> [extra vcheck args]   -- applies the seeded patch to /repo, runs the check, reverts.
ID=$1; PROP=$2; shift 2
[ -z "$(git -C /repo status --porcelain)" ] || { echo "/repo not clean"; exit 3; }
git -C /repo apply /verif/seeded/$ID/patch.diff || exit 3
cd /verif && ./vcheck $PROP "$@" > /tmp/seeded_$ID.$PROP.log 2>&1; RC=$?
git -C /repo checkout -q -- .
echo "== $ID vs $PROP: exit=$RC"; grep -E "VIOLATION|KNOWN-FINDING|INCONCLUSIVE|^OK" /tmp/seeded_$ID.$PROP.log | cut -c1-300 | head -8
exit $RC
