import warnings, sys; warnings.filterwarnings('ignore')
import numpy as np, z3, time
from symnp import *
import dreye.api.barycentric as bc
bc.np=NPProxy()
def run(n):
    A=bc.barycentric_to_cartesian_transformer(n)
    goals=[]
    for i in range(n):
        for j in range(i+1,n):
            d=((A[i]-A[j])**2).sum()
            goals.append((d==1).t if isinstance(d,S) else z3.BoolVal(bool(d==1)))
    return z3.And(goals)
for n in ([int(sys.argv[1])]):
    eng=Engine(timeout_ms=120000); t0=time.time(); res=[]
    for kind,out in eng.explore(lambda: run(n)):
        res.append(kind if kind=='exc' else eng.prove(out)[0])
        if kind=='exc': res.append(repr(out)[:80])
    print(n,res,round(time.time()-t0,2),eng.stats['paths'])
