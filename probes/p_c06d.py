import time, warnings, sys; warnings.filterwarnings('ignore')
import numpy as np, z3
from symnp import *
import dreye.api.convex as cv
cv.np=NPProxy()
m,n=int(sys.argv[1]),int(sys.argv[2])
rng=np.random.default_rng(1)
Ac=np.round(rng.uniform(1,5,(m,n)),2)
def run():
    e=E(); A=const(Ac)
    b=sym('b',(m,)); lb=sym('l',(n,)); ub=sym('u',(n,))
    for i in range(n): e.assume(lb[i]>=0); e.assume(ub[i]>lb[i]); e.assume(ub[i]<=10)
    # precondition: target in gamut (some feasible x0 exists)
    x0=sym('x0',(n,)); 
    for i in range(n): e.assume(x0[i]>=lb[i]); e.assume(x0[i]<=ub[i])
    r=A@x0
    for j in range(m): e.assume(r[j]==b[j])
    mins,maxs=cv._range_of_solutions(A,b,lb,ub)
    return A,b,lb,ub,mins,maxs
eng=Engine(timeout_ms=60000); t0=time.time(); res={}
for kind,out in eng.explore(run, max_paths=100000):
    if kind=='exc': res[type(out).__name__]=res.get(type(out).__name__,0)+1; continue
    A,b,lb,ub,mins,maxs=out
    xs=[z3.Real(f'q{i}') for i in range(n)]
    feas=z3.And([xs[i]>=lb[i].t for i in range(n)]+[xs[i]<=ub[i].t for i in range(n)]+[sum(A[j,i].t*xs[i] for i in range(n))==b[j].t for j in range(m)])
    # attainment: for every k exists feasible x with x_k==mins_k  and one with x_k==maxs_k
    goal=z3.And([z3.Exists(xs,z3.And(feas,xs[k]==mins[k].t)) for k in range(n)]+[z3.Exists(xs,z3.And(feas,xs[k]==maxs[k].t)) for k in range(n)])
    v,_=eng.prove(goal); res[v]=res.get(v,0)+1
print(m,n,res,round(time.time()-t0,1),eng.stats)
