import numpy as np, warnings; warnings.filterwarnings('ignore')
from dreye.api.convex import range_of_solutions, in_hull_from_A
a1=1.9958992154725707646178989307372830808162689208984375*(2**3); u0=1.9613444880319461649520462742657400667667388916015625*(2**1)
a0=1.563295382089563645422458648681640625*(2**1); u1=1.436907513534764202489668605267070233821868896484375*(2**-2)
A=np.array([[a0,a1,0.0],[0.0,0.0,2.0]]); ub=np.array([u0,u1,1.0]); lb=np.zeros(3)
x=np.array([u0,u1,0.5]); b=x@A.T
print('target',b,'in hull',in_hull_from_A(b[None],A,lb,ub))
try:
    mn,mx=range_of_solutions(b,A,lb,ub); print('min',mn,'max',mx,'min<=max',np.all(mn<=mx), 'x within',np.all((mn<=x)&(x<=mx)))
except Exception as e: print('EXC',type(e).__name__,e)
