import z3, time, sys
F=z3.Float64() if sys.argv[1]=='64' else z3.Float32()
rm=z3.RNE()
a0,a1,u0,u1=[z3.FP(n,F) for n in ('a0','a1','u0','u1')]
def rng(v,lo,hi): return z3.And(z3.fpGEQ(v,z3.FPVal(lo,F)),z3.fpLEQ(v,z3.FPVal(hi,F)))
s=z3.Solver(); s.set('timeout',600000)
s.add(rng(a0,1.0,100.0),rng(a1,1.0,100.0),rng(u0,0.05,10.0),rng(u1,0.05,10.0))
zero=z3.FPVal(0.0,F)
# target = capture of the all-on vertex, as system_capture computes it: fl(fl(u0*a0)+fl(u1*a1))
b=z3.fpAdd(rm,z3.fpMul(rm,u0,a0),z3.fpMul(rm,u1,a1))
def cand(af,uf,ar,off):  # fix source r at `off`, solve for f
    return z3.fpDiv(rm,z3.fpSub(rm,b,z3.fpMul(rm,off,ar)),af)
ok=[]
for off in (zero,u1):
    x0=cand(a0,u0,a1,off); ok.append(z3.And(z3.fpGEQ(x0,zero),z3.fpLEQ(x0,u0)))
for off in (zero,u0):
    x1=cand(a1,u1,a0,off); ok.append(z3.And(z3.fpGEQ(x1,zero),z3.fpLEQ(x1,u1)))
s.add(z3.Not(z3.Or(ok)))   # every basic solution rejected
t0=time.time(); r=s.check(); print(r, round(time.time()-t0,1))
if r==z3.sat:
    m=s.model(); print({str(d):m[d] for d in m.decls()})
