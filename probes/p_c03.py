import z3, time, sys, itertools
m,n=int(sys.argv[1]),int(sys.argv[2])
R=z3.Real
A=[[R(f'a{i}{j}') for j in range(n)] for i in range(m)]; k=[R(f'k{i}') for i in range(m)]; base=[R(f'c{i}') for i in range(m)]
lb=[R(f'l{j}') for j in range(n)]; ub=[R(f'u{j}') for j in range(n)]
corners=list(itertools.product([0,1],repeat=n))
def pred(x): return [k[i]*(sum(A[i][j]*x[j] for j in range(n))+base[i]) for i in range(m)]
P=[pred([lb[j]+c[j]*(ub[j]-lb[j]) for j in range(n)]) for c in corners]
# (a) lambda -> x
lam=[R(f'lam{i}') for i in range(len(corners))]
tgt=[sum(lam[c]*P[c][i] for c in range(len(corners))) for i in range(m)]
x=[sum(lam[ci]*(lb[j]+c[j]*(ub[j]-lb[j])) for ci,c in enumerate(corners)) for j in range(n)]
s=z3.Solver(); s.set('timeout',120000)
s.add([l>=0 for l in lam]); s.add(sum(lam)==1); s.add([ub[j]>lb[j] for j in range(n)])
px=pred(x)
s.add(z3.Not(z3.And([z3.simplify(px[i])==z3.simplify(tgt[i]) for i in range(m)]+[z3.And(x[j]>=lb[j],x[j]<=ub[j]) for j in range(n)])))
t0=time.time(); print('a',s.check(),round(time.time()-t0,2))
# (b) x -> lambda
t=[R(f't{j}') for j in range(n)]
xx=[lb[j]+t[j]*(ub[j]-lb[j]) for j in range(n)]
def w(c):
    r=1
    for j in range(n): r=r*(t[j] if c[j] else 1-t[j])
    return r
lam2=[w(c) for c in corners]
tgt2=pred(xx)
comb=[sum(lam2[ci]*P[ci][i] for ci in range(len(corners))) for i in range(m)]
s=z3.Solver(); s.set('timeout',120000)
s.add([z3.And(tj>=0,tj<=1) for tj in t])
s.add(z3.Not(z3.And([z3.simplify(comb[i])==z3.simplify(tgt2[i]) for i in range(m)]+[l>=0 for l in lam2]+[z3.simplify(sum(lam2))==1])))
t0=time.time(); print('b',s.check(),round(time.time()-t0,2))
