import warnings; warnings.filterwarnings('ignore')
import numpy as np, z3
np.trapz=np.trapezoid
from numbers import Number
from symnp import *
Number.register(S)
from dreye.api.capture import calculate_capture
from dreye.api.utils import integral
eng=Engine()
def run():
    F=sym('f',(2,3)); G=sym('g',(2,3)); dx=sym('dx')
    a=calculate_capture(F,G,domain=dx); b=calculate_capture(F,G,domain=dx,trapz=False)
    c=integral(F,dx,keepdims=True)
    return a[0,1],b[0,1],c.shape
for k,o in eng.explore(run): print(k,o)
