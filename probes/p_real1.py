import numpy as np, warnings
warnings.filterwarnings('ignore')
from dreye.api.optimize.lsq_linear import lsq_linear, lsq_linear_minimize, lsq_linear_excitation, lsq_linear_underdetermined, lsq_linear_adaptive
rng=np.random.default_rng(0)
A=rng.uniform(1,5,(3,4)); 
X0=rng.uniform(0.1,0.9,(5,4)); B=X0@A.T
def t(name,f):
    try:
        r=f(); print(name,'OK', np.round(np.asarray(r[0] if isinstance(r,tuple) else r),3).tolist()[:2])
    except Exception as e:
        print(name,'EXC',type(e).__name__,str(e)[:150])
t('bs1',lambda: lsq_linear(A,B,lb=0,ub=1))
t('bs2 (5 rows -> padded)',lambda: lsq_linear(A,B,lb=np.zeros(4),ub=np.ones(4),batch_size=2))
t('bs5',lambda: lsq_linear(A,B,lb=np.zeros(4),ub=np.ones(4),batch_size=5))
t('bs7',lambda: lsq_linear(A,B,lb=np.zeros(4),ub=np.ones(4),batch_size=7))
t('full',lambda: lsq_linear(A,B,lb=np.zeros(4),ub=np.ones(4),batch_size='full'))
t('below baseline',lambda: lsq_linear(A,B[:1]*0+0.5,lb=np.zeros(4),ub=np.ones(4),baseline=1.0))
t('neg target',lambda: lsq_linear(A,-B[:1],lb=np.zeros(4),ub=np.ones(4)))
t('zero target',lambda: lsq_linear(A,0*B[:1],lb=np.zeros(4),ub=np.ones(4)))
t('poisson',lambda: lsq_linear(A,B,lb=np.zeros(4),ub=np.ones(4),model='poisson'))
t('excitation',lambda: lsq_linear_excitation(A,B,lb=np.zeros(4),ub=np.ones(4)))
t('underdet',lambda: lsq_linear_underdetermined(A,B,lb=np.zeros(4),ub=np.ones(4),l2_eps=1e-4))
t('minimize bs1',lambda: lsq_linear_minimize(A,B,lb=np.zeros(4),ub=np.ones(4),l2_eps=1e-4))
t('minimize bs2',lambda: lsq_linear_minimize(A,B,lb=np.zeros(4),ub=np.ones(4),l2_eps=1e-4,batch_size=2))
t('adaptive',lambda: lsq_linear_adaptive(A,B,lb=np.zeros(4),ub=np.ones(4)))
import cvxpy as cp
t('adaptive clarabel',lambda: lsq_linear_adaptive(A,B,lb=np.zeros(4),ub=np.ones(4),solver=cp.CLARABEL))
