import time, warnings, sys; warnings.filterwarnings('ignore')
import numpy as np, z3
from numbers import Number
from symnp import *
Number.register(S)
import symcp
import dreye.api.optimize.lsq_linear as L, dreye.api.optimize.utils as OU, dreye.api.utils as U, dreye.api.optimize.parallel as PL
prox=NPProxy()
for mod in (L,OU,U,PL): mod.np=prox
L.cp=symcp
m,n=2,3
nrows,bs=int(sys.argv[1]),(sys.argv[2] if sys.argv[2]=='full' else int(sys.argv[2]))
mut=sys.argv[3] if len(sys.argv)>3 else None
def run():
    e=E(); symcp.Variable._live.clear()
    A=sym('a',(m,n)); B=sym('b',(nrows,m)); lb=sym('l',(n,)); ub=sym('u',(n,)); W=sym('w',(nrows,m)); K=sym('k',(m,)); base=sym('c',(m,))
    for v in list(lb): e.assume(v>=0)
    for j in range(n): e.assume(ub[j]>lb[j])
    for v in W.ravel(): e.assume(v>0)
    # precondition for this probe: targets above baseline (avoid F5 path)
    Bt=B-K*base
    for v in Bt.ravel(): e.assume(v>=0)
    X,Bp=L.lsq_linear(A,B,lb=lb,ub=ub,W=W,K=K,baseline=base,batch_size=bs,return_pred=True)
    return A,B,lb,ub,W,K,base,X,Bp
eng=Engine(timeout_ms=60000); t0=time.time()
for kind,out in eng.explore(run):
    if kind=='exc': print('EXC',type(out).__name__,str(out)[:200]); continue
    A,B,lb,ub,W,K,base,X,Bp=out
    print('X',X.shape,'pred',Bp.shape, 'solves',len(symcp.Problem.__dict__.get('x',[])))
    def pred(x): return (K*(A@x+base))
    def spec(i,x): 
        r=W[i]*(pred(x)-B[i]); return (r**2).sum()
    # (b) prediction identity
    g=[(Bp[i,j]==pred(X[i])[j]).t for i in range(nrows) for j in range(m)]
    print('pred identity',eng.prove(z3.And(g))[0])
    # per-row optimality: competitor y for row i, others keep x*
    # collect solve records
    import gc
    probs=[o for o in gc.get_objects() if isinstance(o,symcp.Problem)]
    recs=[r for p in probs for r in p.solves]
    print('n solves',len(recs))
    # identity of stacked objective: sum over rows in the batch of spec(row) == obj  (row->block mapping unknown to harness: check via X rows)
    tot_code=sum((r['obj'] for r in recs[1:]),recs[0]['obj'])
    tot_spec=sum((spec(i,X[i]) for i in range(1,nrows)),spec(0,X[0]))
    print('sum objective identity',eng.prove(tot_code==tot_spec)[0], round(time.time()-t0,2))
print(eng.stats, round(time.time()-t0,2))
