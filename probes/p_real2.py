import numpy as np, warnings
warnings.filterwarnings('ignore')
from dreye.api.optimize.lsq_linear import lsq_linear, lsq_linear_excitation
from scipy.optimize import minimize
rng=np.random.default_rng(0)
A=rng.uniform(1,5,(3,2)); lb=np.zeros(2); ub=np.ones(2)
B=rng.uniform(2,20,(4,3)); base=np.array([3.,1.,2.])
def t(name,f):
    try:
        r=f(); print(name,'OK'); return r
    except Exception as e:
        print(name,'EXC',type(e).__name__,str(e)[:120])
t('poisson bs2',lambda: lsq_linear(A,B,lb=lb,ub=ub,model='poisson',batch_size=2,baseline=base))
t('poisson bs2 nobase',lambda: lsq_linear(A,B,lb=lb,ub=ub,model='poisson',batch_size=2))
X,Bp=t('exc base',lambda: lsq_linear_excitation(A,B,lb=lb,ub=ub,baseline=base,return_pred=True))
exc=lambda q:q/(1+q)
def obj(x,b): return np.max(np.abs(exc(b)-exc(A@x+base)))
for i in range(4):
    best=min((minimize(lambda x:obj(x,B[i]),x0,bounds=list(zip(lb,ub)),method='Nelder-Mead',options=dict(xatol=1e-10,fatol=1e-12)) for x0 in rng.uniform(0,1,(8,2))),key=lambda r:r.fun)
    print(i,'code obj',obj(X[i],B[i]),'ref obj',best.fun, 'X',X[i],'ref',best.x)
