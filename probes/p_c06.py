import time, warnings, sys; warnings.filterwarnings('ignore')
import numpy as np, z3
from symnp import *
import dreye.api.convex as cv
cv.np=NPProxy()
m,n=int(sys.argv[1]),int(sys.argv[2]); symA=sys.argv[3]=='symA'
rng=np.random.default_rng(1)
def run():
    e=E()
    if symA:
        A=sym('a',(m,n))
        for v in A.ravel(): e.assume(v>0)
    else:
        A=const(np.round(rng.uniform(1,5,(m,n)),2))
    b=sym('b',(m,)); lb=sym('l',(n,)); ub=sym('u',(n,))
    for i in range(n): e.assume(lb[i]>=0); e.assume(ub[i]>lb[i]); e.assume(ub[i]<=10)
    mins,maxs=cv._range_of_solutions(A,b,lb,ub)
    # soundness: any feasible x lies within [mins,maxs]
    x=sym('x',(n,))
    feas=[ (x[i]>=lb[i]).t for i in range(n)]+[(x[i]<=ub[i]).t for i in range(n)]
    Ax=A@x
    feas+=[(Ax[j]==b[j]).t for j in range(m)]
    goal=z3.And([z3.And((mins[i]<=x[i]).t,(x[i]<=maxs[i]).t) for i in range(n)])
    return feas,goal
eng=Engine(timeout_ms=30000)
t0=time.time(); res={}
for kind,out in eng.explore(run, max_paths=100000):
    if kind=='exc':
        res[type(out).__name__]=res.get(type(out).__name__,0)+1; continue
    feas,goal=out
    v,_=eng.prove(goal,extra=feas); res[v]=res.get(v,0)+1
print(m,n,symA,res,round(time.time()-t0,1),eng.stats)
