import z3, time, itertools
m,n=3,4
R=lambda nm: z3.Real(nm)
A=[[R(f'a{i}{j}') for j in range(n)] for i in range(m)]
w=[R(f'w{i}') for i in range(m)]; k=[R(f'k{i}') for i in range(m)]; base=[R(f'c{i}') for i in range(m)]; b=[R(f'b{i}') for i in range(m)]
lb=[R(f'l{j}') for j in range(n)]; ub=[R(f'u{j}') for j in range(n)]
xs=[R(f'xs{j}') for j in range(n)]; xp=[R(f'xp{j}') for j in range(n)]
def pred(x): return [k[i]*(sum(A[i][j]*x[j] for j in range(n))+base[i]) for i in range(m)]
def spec(x): return sum((w[i]*(pred(x)[i]-b[i]))**2 for i in range(m))
# code: A'=A*k, base'=k*base, B'=b-base'; obj=sum((w*A' x - w*B')^2)
def code(x,mut=None):
    tot=0
    for i in range(m):
        Ai=[A[i][j]*k[i] for j in range(n)]; bi=b[i]-k[i]*base[i]
        wi = 1 if mut=='noweight' else w[i]
        if mut=='basetwice': bi=b[i]-k[i]*base[i]-base[i]
        tot=tot+(sum(wi*Ai[j]*x[j] for j in range(n))-bi*wi)**2
    return tot
def feas(x): return z3.And([z3.And(x[j]>=lb[j],x[j]<=ub[j]) for j in range(n)])
pre=z3.And([lb[j]>=0 for j in range(n)]+[ub[j]>lb[j] for j in range(n)]+[w[i]>0 for i in range(m)])
for mut in (None,'noweight','basetwice'):
    s=z3.Solver(); s.set('timeout',120000)
    s.add(pre,feas(xs),feas(xp), code(xs,mut)<=code(xp,mut), z3.Not(spec(xs)<=spec(xp)))
    t0=time.time(); r=s.check(); print('transfer',mut,r,round(time.time()-t0,2))
    s=z3.Solver(); s.set('timeout',120000)
    s.add(code(xs,mut)!=spec(xs)); t0=time.time(); r=s.check(); print('identity',mut,r,round(time.time()-t0,2))
