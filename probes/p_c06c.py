import time, warnings, sys; warnings.filterwarnings('ignore')
import numpy as np, z3
import symnp
from symnp import *
def linalg_solve_fresh(A,B):
    A=np.asarray(A).view(np.ndarray); B=np.asarray(B).view(np.ndarray)
    e=E(); d=det(A)
    if isinstance(d,S):
        if bool(d==0): raise np.linalg.LinAlgError("Singular matrix")
    vec=B.ndim==1; Bm=B[:,None] if vec else B
    X=np.empty(Bm.shape,dtype=object)
    for idx in np.ndindex(*X.shape): X[idx]=S(e.fresh_real('sol'))
    R=A@X
    for idx in np.ndindex(*R.shape): e.assume(R[idx]==Bm[idx])
    return (X[:,0] if vec else X).view(SymArray)
symnp._FUNCS[np.linalg.solve]=linalg_solve_fresh
sys.argv=[sys.argv[0],'2','3','symA']
exec(open('p_c06.py').read())
