"""Prototype symbolic-numpy engine (feasibility probe only, not the framework).

Real numpy performs all shape/broadcast/index logic on dtype=object arrays whose
elements are symbolic reals (S) / symbolic booleans (SB) wrapping z3 terms.
Branches on symbolic booleans fork paths (re-execution with a decision prefix).
"""
import fractions, itertools, time
import numpy as np
import z3


class Abort(BaseException):
    """path abandoned (infeasible / budget)"""


class Engine:
    cur = None

    def __init__(self, timeout_ms=20000):
        self.timeout_ms = timeout_ms
        self.stats = dict(paths=0, forks=0, feas_queries=0, solver_s=0.0, queries=0)

    # ---- per path state
    def _reset(self, prefix):
        self.prefix = list(prefix)
        self.pos = 0
        self.pc = []          # z3 bools: path condition + assumptions + definitional constraints
        self.fresh = itertools.count()
        self.solver = z3.Solver()
        self.solver.set("timeout", self.timeout_ms)
        self.log = []

    def fresh_real(self, hint="t"):
        return z3.Real(f"{hint}!{next(self.fresh)}")

    def assume(self, b):
        b = b.t if isinstance(b, SB) else b
        if isinstance(b, (bool, np.bool_)):
            if not b:
                raise Abort()
            return
        self.pc.append(b)
        self.solver.add(b)

    def _check(self, *extra):
        t0 = time.time()
        r = self.solver.check(*extra)
        self.stats["solver_s"] += time.time() - t0
        self.stats["feas_queries"] += 1
        return r

    def branch(self, cond):
        """decide a symbolic boolean; fork if both sides feasible"""
        c = z3.simplify(cond)
        if z3.is_true(c):
            return True
        if z3.is_false(c):
            return False
        if self.pos < len(self.prefix):
            v = self.prefix[self.pos]
        else:
            can_t = self._check(c) != z3.unsat
            can_f = self._check(z3.Not(c)) != z3.unsat
            if can_t and can_f:
                self.work.append(self.prefix + [False])
                self.stats["forks"] += 1
                v = True
            elif can_t:
                v = True
            elif can_f:
                v = False
            else:
                raise Abort()
            self.prefix.append(v)
        self.pos += 1
        self.assume(c if v else z3.Not(c))
        return v

    def explore(self, fn, max_paths=10000):
        """run fn() on every feasible path; yields (outcome, exception, engine-state)"""
        self.work = [[]]
        Engine.cur = self
        try:
            while self.work:
                prefix = self.work.pop()
                self._reset(prefix)
                self.stats["paths"] += 1
                if self.stats["paths"] > max_paths:
                    raise RuntimeError("path budget exceeded")
                try:
                    out = fn()
                    yield ("ok", out)
                except Abort:
                    continue
                except Exception as e:  # exception raised by code under test on this path
                    yield ("exc", e)
        finally:
            Engine.cur = None

    def prove(self, goal, extra=()):
        """is pc ∧ extra ∧ ¬goal unsat?  returns (verdict, model)"""
        g = goal.t if isinstance(goal, SB) else goal
        if isinstance(g, (bool, np.bool_)):
            g = z3.BoolVal(bool(g))
        s = z3.Solver()
        s.set("timeout", self.timeout_ms)
        s.add(*self.pc)
        s.add(*extra)
        s.add(z3.Not(g))
        t0 = time.time()
        r = s.check()
        self.stats["solver_s"] += time.time() - t0
        self.stats["queries"] += 1
        return str(r), (s.model() if r == z3.sat else None)


def E():
    return Engine.cur


def rat(v):
    f = fractions.Fraction(v)
    return z3.RealVal(f"{f.numerator}/{f.denominator}")


def lift(v):
    if isinstance(v, S):
        return v.t
    if isinstance(v, (bool, np.bool_, SB)):
        raise TypeError("bool in arithmetic")
    if isinstance(v, (int, np.integer)):
        return z3.RealVal(int(v))
    if isinstance(v, (float, np.floating)):
        if not np.isfinite(v):
            raise TypeError("non-finite constant in symbolic arithmetic")
        return rat(float(v))
    if isinstance(v, fractions.Fraction):
        return rat(v)
    if isinstance(v, np.ndarray) and v.ndim == 0:
        return lift(v.item())
    raise TypeError(type(v))


class S:
    """symbolic real"""
    __slots__ = ("t",)

    def __init__(self, t):
        self.t = t

    def _b(self, o, f):
        if isinstance(o, np.ndarray) and o.ndim > 0:
            return NotImplemented
        try:
            return S(z3.simplify(f(self.t, lift(o))))
        except TypeError:
            return NotImplemented

    def __add__(s, o): return s._b(o, lambda a, b: a + b)
    def __radd__(s, o): return s._b(o, lambda a, b: b + a)
    def __sub__(s, o): return s._b(o, lambda a, b: a - b)
    def __rsub__(s, o): return s._b(o, lambda a, b: b - a)
    def __mul__(s, o): return s._b(o, lambda a, b: a * b)
    def __rmul__(s, o): return s._b(o, lambda a, b: b * a)
    def __truediv__(s, o): return s._b(o, lambda a, b: a / b)
    def __rtruediv__(s, o): return s._b(o, lambda a, b: b / a)
    def __neg__(s): return S(-s.t)
    def __pos__(s): return s
    def __abs__(s): return S(z3.If(s.t >= 0, s.t, -s.t))

    def __pow__(s, o):
        if isinstance(o, (int, np.integer)) and o >= 0:
            r = S(z3.RealVal(1))
            for _ in range(int(o)):
                r = r * s
            return r
        if o == 0.5:
            return s.sqrt()
        return NotImplemented

    def sqrt(s):
        e = E()
        y = e.fresh_real("sqrt")
        e.assume(y >= 0)
        e.assume(y * y == s.t)   # NB: infeasible if s<0 -> path aborts later; callers guard
        return S(y)

    def _c(self, o, f):
        try:
            return SB(f(self.t, lift(o)))
        except TypeError:
            return NotImplemented

    def __lt__(s, o): return s._c(o, lambda a, b: a < b)
    def __le__(s, o): return s._c(o, lambda a, b: a <= b)
    def __gt__(s, o): return s._c(o, lambda a, b: a > b)
    def __ge__(s, o): return s._c(o, lambda a, b: a >= b)
    def __eq__(s, o): return s._c(o, lambda a, b: a == b)
    def __ne__(s, o): return s._c(o, lambda a, b: a != b)
    __hash__ = None

    def __float__(s):
        raise TypeError("symbolic real reached a float-only (compiled) boundary")

    def __repr__(s):
        return f"S({s.t})"


class SB:
    """symbolic bool"""
    __slots__ = ("t",)

    def __init__(self, t):
        self.t = t

    def __bool__(s):
        return E().branch(s.t)

    @staticmethod
    def _l(o):
        if isinstance(o, SB):
            return o.t
        if isinstance(o, (bool, np.bool_)):
            return z3.BoolVal(bool(o))
        raise TypeError(type(o))

    def __and__(s, o): return SB(z3.And(s.t, SB._l(o)))
    __rand__ = __and__
    def __or__(s, o): return SB(z3.Or(s.t, SB._l(o)))
    __ror__ = __or__
    def __invert__(s): return SB(z3.Not(s.t))
    def __repr__(s): return f"SB({s.t})"


def sym(name, shape=()):
    if shape == ():
        return S(z3.Real(name))
    a = np.empty(shape, dtype=object)
    for idx in np.ndindex(*shape):
        a[idx] = S(z3.Real(name + "_" + "_".join(map(str, idx))))
    return a.view(SymArray)


_CMP = {np.less, np.less_equal, np.greater, np.greater_equal, np.equal, np.not_equal}


def _is_symarr(x):
    return isinstance(x, np.ndarray) and x.dtype == object


class SymArray(np.ndarray):
    """object ndarray whose ufuncs/functions never force symbolic values to concrete"""
    __array_priority__ = 100

    def __array_ufunc__(self, ufunc, method, *inputs, out=None, **kw):
        ins = [np.asarray(i).view(np.ndarray) if isinstance(i, np.ndarray) else i for i in inputs]
        ins = [np.asarray(i, dtype=object) if isinstance(i, (S, SB)) else i for i in ins]
        if out is not None:
            kw["out"] = tuple(o.view(np.ndarray) if isinstance(o, SymArray) else o for o in out)
        if method == "__call__":
            if ufunc in _CMP:
                kw.setdefault("dtype", object)
                r = ufunc(*ins, **kw)
            elif ufunc in (np.isfinite,):
                r = np.ones(np.broadcast(*ins).shape, dtype=bool)
            elif ufunc in (np.isnan, np.isinf, np.isneginf, np.isposinf):
                r = np.zeros(np.broadcast(*ins).shape, dtype=bool)
            elif ufunc is np.minimum:
                r = np.frompyfunc(smin, 2, 1)(*ins)
            elif ufunc is np.maximum:
                r = np.frompyfunc(smax, 2, 1)(*ins)
            elif ufunc is np.sqrt:
                r = np.frompyfunc(ssqrt, 1, 1)(*ins)
            elif ufunc is np.absolute:
                r = np.frompyfunc(abs, 1, 1)(*ins)
            elif ufunc in (np.logical_and, np.bitwise_and):
                r = np.frompyfunc(lambda a, b: a & b, 2, 1)(*ins)
            elif ufunc in (np.logical_or, np.bitwise_or):
                r = np.frompyfunc(lambda a, b: a | b, 2, 1)(*ins)
            elif ufunc in (np.logical_not, np.invert):
                r = np.frompyfunc(lambda a: ~a if isinstance(a, SB) else (not a), 1, 1)(*ins)
            else:
                r = ufunc(*ins, **kw)
        else:
            if ufunc in (np.logical_and,) and method == "reduce":
                return sall(ins[0], axis=kw.get("axis"))
            if ufunc in (np.logical_or,) and method == "reduce":
                return sany(ins[0], axis=kw.get("axis"))
            if ufunc in (np.minimum, np.maximum) and method == "reduce":
                f = smin if ufunc is np.minimum else smax
                return _reduce(f, ins[0], kw.get("axis"), kw.get("keepdims", False))
            r = getattr(ufunc, method)(*ins, **kw)
        return _wrap(r)

    def __array_function__(self, func, types, args, kwargs):
        if func in _FUNCS:
            return _FUNCS[func](*args, **kwargs)
        a2 = _strip(args)
        k2 = _strip(kwargs)
        return _wrap(func(*a2, **k2))

    # methods numpy implements in C for object arrays using python truthiness
    def all(self, axis=None, **kw): return sall(self, axis=axis)
    def any(self, axis=None, **kw): return sany(self, axis=axis)
    def min(self, axis=None, keepdims=False, **kw): return _reduce(smin, self, axis, keepdims)
    def max(self, axis=None, keepdims=False, **kw): return _reduce(smax, self, axis, keepdims)

    def astype(self, dtype, *a, **k):
        if np.dtype(dtype).kind == "f":
            return self.copy()
        return np.ndarray.astype(self.view(np.ndarray), dtype, *a, **k)

    def __getitem__(self, item):
        if isinstance(item, np.ndarray) and item.dtype == object:
            item = concretize_mask(item)
        elif isinstance(item, tuple):
            item = tuple(concretize_mask(i) if _is_symarr(i) else i for i in item)
        r = np.ndarray.__getitem__(self, item)
        return r

    def __setitem__(self, item, value):
        if isinstance(item, np.ndarray) and item.dtype == object:
            item = concretize_mask(item)
        np.ndarray.__setitem__(self, item, value)


def concretize_mask(m):
    """boolean mask with symbolic entries -> concrete mask by forking on each entry"""
    m = np.asarray(m).view(np.ndarray)
    out = np.zeros(m.shape, dtype=bool)
    for idx in np.ndindex(*m.shape):
        out[idx] = bool(m[idx])
    return out


def _strip(x):
    if isinstance(x, SymArray):
        return x.view(np.ndarray)
    if isinstance(x, (list, tuple)):
        return type(x)(_strip(i) for i in x)
    if isinstance(x, dict):
        return {k: _strip(v) for k, v in x.items()}
    return x


def _wrap(r):
    if isinstance(r, np.ndarray) and r.dtype == object:
        return r.view(SymArray)
    if isinstance(r, tuple):
        return tuple(_wrap(i) for i in r)
    if isinstance(r, list):
        return [_wrap(i) for i in r]
    return r


def smin(a, b):
    if isinstance(a, S) or isinstance(b, S):
        x, y = lift(a), lift(b)
        return S(z3.If(x <= y, x, y))
    return min(a, b)


def smax(a, b):
    if isinstance(a, S) or isinstance(b, S):
        x, y = lift(a), lift(b)
        return S(z3.If(x >= y, x, y))
    return max(a, b)


def ssqrt(a):
    if isinstance(a, S):
        return a.sqrt()
    return np.sqrt(a)


def _reduce(f, arr, axis, keepdims=False):
    a = np.asarray(arr).view(np.ndarray)
    if axis is None:
        flat = a.ravel()
        r = flat[0]
        for v in flat[1:]:
            r = f(r, v)
        return r
    r = np.apply_along_axis(lambda v: _reduce(f, v, None), axis, a)
    r = np.asarray(r, dtype=object)
    if keepdims:
        r = np.expand_dims(r, axis)
    return _wrap(r)


def _tob(v):
    if isinstance(v, SB):
        return v.t
    if isinstance(v, S):
        return v.t != 0
    return z3.BoolVal(bool(v))


def sall(arr, axis=None, **kw):
    a = np.asarray(arr).view(np.ndarray)
    if a.dtype != object:
        return np.all(a, axis=axis)
    if axis is None:
        return SB(z3.And([_tob(v) for v in a.ravel()])) if a.size else True
    r = np.empty(np.delete(a.shape, axis), dtype=object)
    am = np.moveaxis(a, axis, -1)
    for idx in np.ndindex(*r.shape):
        r[idx] = SB(z3.And([_tob(v) for v in am[idx]]))
    return r.view(SymArray)


def sany(arr, axis=None, **kw):
    a = np.asarray(arr).view(np.ndarray)
    if a.dtype != object:
        return np.any(a, axis=axis)
    if axis is None:
        return SB(z3.Or([_tob(v) for v in a.ravel()])) if a.size else False
    r = np.empty(np.delete(a.shape, axis), dtype=object)
    am = np.moveaxis(a, axis, -1)
    for idx in np.ndindex(*r.shape):
        r[idx] = SB(z3.Or([_tob(v) for v in am[idx]]))
    return r.view(SymArray)


def det(M):
    M = np.asarray(M).view(np.ndarray)
    n = M.shape[0]
    if n == 1:
        return M[0, 0]
    if n == 2:
        return M[0, 0] * M[1, 1] - M[0, 1] * M[1, 0]
    tot = 0
    for j in range(n):
        minor = np.delete(np.delete(M, 0, axis=0), j, axis=1)
        tot = tot + ((-1) ** j) * M[0, j] * det(minor)
    return tot


def linalg_solve(A, B):
    """exact solve by Cramer; singular -> LinAlgError branch (as numpy raises)"""
    A = np.asarray(A).view(np.ndarray)
    B = np.asarray(B).view(np.ndarray)
    d = det(A)
    if isinstance(d, S):
        if bool(d == 0):
            raise np.linalg.LinAlgError("Singular matrix")
    elif d == 0:
        raise np.linalg.LinAlgError("Singular matrix")
    vec = B.ndim == 1
    Bm = B[:, None] if vec else B
    n = A.shape[0]
    X = np.empty(Bm.shape, dtype=object)
    for c in range(Bm.shape[1]):
        for i in range(n):
            Ai = A.copy().astype(object)
            Ai[:, i] = Bm[:, c]
            X[i, c] = det(Ai) / d
    X = X[:, 0] if vec else X
    return X.view(SymArray)


def swhere(cond, a=None, b=None):
    cond = np.asarray(cond).view(np.ndarray)
    a = np.asarray(a); b = np.asarray(b)
    def f(c, x, y):
        if isinstance(c, SB):
            if isinstance(x, SB) or isinstance(y, SB):
                return SB(z3.If(c.t, SB._l(x), SB._l(y)))
            return S(z3.If(c.t, lift(x), lift(y)))
        return x if c else y
    return _wrap(np.frompyfunc(f, 3, 1)(cond, a.view(np.ndarray), b.view(np.ndarray)))


def sisclose(a, b, rtol=1e-05, atol=1e-08, equal_nan=False):
    a = np.asarray(a).view(np.ndarray); b = np.asarray(b).view(np.ndarray)
    def f(x, y):
        if isinstance(x, S) or isinstance(y, S):
            return abs(S(lift(x) - lift(y))) <= atol + rtol * abs(S(lift(y)))
        return bool(np.isclose(x, y, rtol, atol))
    return _wrap(np.frompyfunc(f, 2, 1)(a, b))


_FUNCS = {
    np.all: sall, np.any: sany,
    np.min: lambda a, axis=None, keepdims=False, **k: _reduce(smin, a, axis, keepdims),
    np.max: lambda a, axis=None, keepdims=False, **k: _reduce(smax, a, axis, keepdims),
    np.amin: lambda a, axis=None, keepdims=False, **k: _reduce(smin, a, axis, keepdims),
    np.amax: lambda a, axis=None, keepdims=False, **k: _reduce(smax, a, axis, keepdims),
    np.linalg.solve: linalg_solve,
    np.linalg.det: det,
    np.where: swhere,
    np.isclose: sisclose,
}


class NPProxy:
    """stand-in for the `np` global of a dreye module during symbolic runs"""
    def __init__(self):
        self.linalg = np.linalg

    def __getattr__(self, name):
        return getattr(np, name)

    @staticmethod
    def zeros(shape, dtype=None, **k):
        a = np.empty(shape, dtype=object); a[...] = S(z3.RealVal(0))
        return a.view(SymArray)

    @staticmethod
    def ones(shape, dtype=None, **k):
        a = np.empty(shape, dtype=object); a[...] = S(z3.RealVal(1))
        return a.view(SymArray)

    @staticmethod
    def asarray(a, *args, **k):
        r = np.asarray(a, *args, **k)
        return _wrap(r)

    @staticmethod
    def atleast_1d(*a):
        return _wrap(np.atleast_1d(*a))

    @staticmethod
    def atleast_2d(*a):
        return _wrap(np.atleast_2d(*a))


def const(arr):
    """concrete floats -> exact rational symbolic constants (no float rounding inside symbolic runs)"""
    a = np.asarray(arr, dtype=float)
    out = np.empty(a.shape, dtype=object)
    for idx in np.ndindex(*a.shape):
        out[idx] = S(rat(float(a[idx])))
    return out.view(SymArray)
