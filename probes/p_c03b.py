import time, warnings, sys, itertools; warnings.filterwarnings('ignore')
import numpy as np, z3
from numbers import Number
from symnp import *
Number.register(S)
import dreye.api.convex as cv, dreye.api.utils as U
prox=NPProxy()
for mod in (cv,U): mod.np=prox
m,n=int(sys.argv[1]),int(sys.argv[2]); mut=len(sys.argv)>3
calls=[]
class DelaunayStub:
    def __init__(self,P,qhull_options=None): self.P=np.asarray(P)
    def find_simplex(self,B):
        B=np.atleast_2d(np.asarray(B)); e=E()
        flags=[z3.Bool(f'inh!{len(calls)}_{i}') for i in range(B.shape[0])]
        calls.append((self.P,B,flags))
        r=np.empty(B.shape[0],dtype=object)
        for i,f in enumerate(flags): r[i]=S(z3.If(f,z3.RealVal(0),z3.RealVal(-1)))
        return r.view(SymArray)
cv.Delaunay=DelaunayStub
def run():
    calls.clear(); e=E()
    A=sym('a',(m,n)); K=sym('k',(m,)); base=sym('c',(m,)); lb=sym('l',(n,)); ub=sym('u',(n,)); B=sym('b',(2,m))
    for j in range(n): e.assume(lb[j]>=0); e.assume(ub[j]>lb[j])
    if mut: 
        orig=cv.transform_values
    res=cv.in_hull_from_A(B,A,lb,ub,K=K,baseline=base)
    return A,K,base,lb,ub,B,res
eng=Engine(timeout_ms=60000); t0=time.time()
for kind,out in eng.explore(run):
    if kind=='exc': print('EXC',repr(out)[:200]); continue
    A,K,base,lb,ub,B,res=out
    P_,B_,flags=calls[0]
    corners=list(itertools.product([0,1],repeat=n))
    print('paths so far',eng.stats['paths'],'P_',P_.shape,'res',res.shape)
    for i in range(B.shape[0]):
        reported=(res[i]) if isinstance(res[i],SB) else None
        rep=res[i].t if isinstance(res[i],SB) else z3.BoolVal(bool(res[i]))
        # (a) reported in  => reproducible.  contract instance: flag -> B_[i] = sum lam P_ , lam>=0,sum 1
        lam=[z3.Real(f'lam{i}_{c}') for c in range(P_.shape[0])]
        inst=z3.Implies(flags[i], z3.And([l>=0 for l in lam]+[sum(lam)==1]+[sum(lam[c]*P_[c,d].t for c in range(P_.shape[0]))==B_[i,d].t for d in range(m)]))
        # witness x: the code's corner order is product([0,1]) over sources => rows of P_ follow `corners`
        x=[sum(lam[ci]*(lb[j].t+c[j]*(ub[j].t-lb[j].t)) for ci,c in enumerate(corners)) for j in range(n)]
        predx=[K[d].t*(sum(A[d,j].t*x[j] for j in range(n))+base[d].t) for d in range(m)]
        goal=z3.Implies(rep, z3.And([predx[d]==B[i,d].t for d in range(m)]+[z3.And(x[j]>=lb[j].t,x[j]<=ub[j].t) for j in range(n)]))
        va=eng.prove(goal,extra=[inst])[0]
        # (b) reproducible => reported in
        t=[z3.Real(f't{i}_{j}') for j in range(n)]
        xx=[lb[j].t+t[j]*(ub[j].t-lb[j].t) for j in range(n)]
        def w(c):
            r=z3.RealVal(1)
            for j in range(n): r=r*(t[j] if c[j] else 1-t[j])
            return r
        lam2=[w(c) for c in corners]
        hyp=[z3.And(tj>=0,tj<=1) for tj in t]+[K[d].t*(sum(A[d,j].t*xx[j] for j in range(n))+base[d].t)==B[i,d].t for d in range(m)]
        inst2=z3.Implies(z3.And([l>=0 for l in lam2]+[z3.simplify(sum(lam2))==1]+[z3.simplify(sum(lam2[c]*P_[c,d].t for c in range(len(corners))))==B_[i,d].t for d in range(m)]), flags[i])
        vb=eng.prove(rep,extra=hyp+[inst2])[0]
        print(' row',i,'in=>repro',va,' repro=>in',vb, round(time.time()-t0,2))
print(eng.stats)
