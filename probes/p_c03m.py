import inspect, sys
import dreye.api.convex as cv
src=inspect.getsource(cv.in_hull_from_A).replace("B_ = B - offset","B_ = B - baseline")
assert "B - baseline" in src
exec(src, cv.__dict__)
sys.argv=[sys.argv[0],'2','3']
exec(open('p_c03b.py').read())
