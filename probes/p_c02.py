import time, warnings; warnings.filterwarnings('ignore')
import numpy as np, z3
np.trapz=np.trapezoid  # probe only
from symnp import *
import dreye.api.estimator as est, dreye.api.utils as U, dreye.api.capture as cap
prox=NPProxy()
for m in (est,U,cap): m.np=prox
nf,ns,nd=3,4,4
def run(Kkind):
    F=sym('f',(nf,nd)); Src=sym('s',(ns,nd)); x=sym('x',(2,ns)); base=sym('b',(nf,))
    K={'scalar':sym('k'),'vec':sym('k',(nf,)),'mat':sym('k',(nf,nf))}[Kkind]
    D=sym('d',(nd,))
    e=est.ReceptorEstimator(F,domain=D,K=K,baseline=base)
    e.register_system(Src,lb=0.0,ub=1.0)
    got=e.system_relative_capture(x)
    mixed=x@Src
    Q=e.capture(mixed)           # code's own capture of the physically mixed spectrum
    # independent spec of K(Q+baseline), Q = trapezoid integral
    goals=[]
    for r in range(2):
        q=[sum(((D[k+1]-D[k])*(mixed[r,k]*F[j,k]+mixed[r,k+1]*F[j,k+1])/2 for k in range(nd-1))) + base[j] for j in range(nf)]
        for j in range(nf):
            if Kkind=='mat': spec=sum((K[j,l]*q[l] for l in range(nf)))
            elif Kkind=='vec': spec=K[j]*q[j]
            else: spec=K*q[j]
            goals.append(got[r,j].t==spec.t)
    return z3.And(goals)
for Kkind in ('scalar','vec','mat'):
    eng=Engine()
    t0=time.time()
    for kind,out in eng.explore(lambda: run(Kkind)):
        if kind=='exc': print('EXC',repr(out)); continue
        print(Kkind, eng.prove(out)[0], round(time.time()-t0,2), eng.stats)
