import numpy as np, warnings; warnings.filterwarnings('ignore')
from dreye.api.convex import range_of_solutions
rng=np.random.default_rng(0); bad=0; exc=0; N=400
for t in range(N):
    A=rng.uniform(1,20,(2,3)); ub=rng.uniform(0.05,10,3); lb=np.zeros(3)
    x=ub.copy()  # all-on vertex
    b=x@A.T
    try:
        mn,mx=range_of_solutions(b,A,lb,ub)
        if not np.all(mn<=mx):
            bad+=1
            if bad==1: print('example',repr(A),repr(ub),mn,mx)
    except Exception as e:
        exc+=1
        if exc==1: print('EXC',type(e).__name__,str(e)[:80])
print('min>max',bad,'exceptions',exc,'of',N)
