import numpy as np
np.trapz = np.trapezoid
from dreye.api.capture import calculate_capture

def chk(f0: float, f1: float, s0: float, s1: float, dx: float) -> float:
    """
    pre: -100 <= f0 <= 100 and -100 <= f1 <= 100 and -100 <= s0 <= 100 and -100 <= s1 <= 100 and 0 < dx <= 10
    post: __return__ == 0
    """
    F = np.empty((1, 2), dtype=object); F[0, 0] = f0; F[0, 1] = f1
    Sg = np.empty((1, 2), dtype=object); Sg[0, 0] = s0; Sg[0, 1] = s1
    out = calculate_capture(F, Sg, domain=dx)
    return out[0, 0] - dx * (f0 * s0 + f1 * s1) / 2

def chk_bad(f0: float, f1: float, s0: float, s1: float, dx: float) -> float:
    """
    pre: -100 <= f0 <= 100 and -100 <= f1 <= 100 and -100 <= s0 <= 100 and -100 <= s1 <= 100 and 0 < dx <= 10
    post: __return__ == 0
    """
    F = np.empty((1, 2), dtype=object); F[0, 0] = f0; F[0, 1] = f1
    Sg = np.empty((1, 2), dtype=object); Sg[0, 0] = s0; Sg[0, 1] = s1
    out = calculate_capture(F, Sg, domain=dx)
    return out[0, 0] - dx * (f0 * s0 + f1 * s1)
