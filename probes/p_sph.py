import z3, time, sys
def rt(d):
    x=[z3.Real(f'x{i}') for i in range(d)]
    s=z3.Solver(); s.set('timeout',120000)
    n=[z3.Real(f'n{i}') for i in range(d-1)]  # tail norms
    cs=[];ss=[]
    s.add(z3.Or(x[d-1]!=0,x[d-2]!=0))  # generic case: last tail nonzero => all tails nonzero
    for i in range(d-1):
        s.add(n[i]>=0, n[i]*n[i]==sum(x[k]*x[k] for k in range(i,d)))
        c=z3.Real(f'c{i}'); sn=z3.Real(f's{i}')
        s.add(c*n[i]==x[i], sn>=0, sn*sn==1-c*c)
        cs.append(c); ss.append(sn)
    last_sin=z3.If(x[d-1]>=0, ss[d-2], -ss[d-2])
    r=n[0]
    y=[]
    for i in range(d-1):
        t=r*cs[i]
        for k in range(i): t=t*ss[k]
        y.append(t)
    t=r*last_sin
    for k in range(d-2): t=t*ss[k]
    y.append(t)
    s.add(z3.Or([y[i]!=x[i] for i in range(d)]))
    t0=time.time(); r_=s.check(); return r_, round(time.time()-t0,2)
for d in range(2,int(sys.argv[1])+1): print(d, rt(d))
