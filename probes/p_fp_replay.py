import numpy as np, warnings; warnings.filterwarnings('ignore')
from dreye.api.convex import range_of_solutions, _range_of_solutions, in_hull_from_A
a1=1.9958992154725707646178989307372830808162689208984375*(2**3); u0=1.9613444880319461649520462742657400667667388916015625*(2**1)
a0=1.563295382089563645422458648681640625*(2**1); u1=1.436907513534764202489668605267070233821868896484375*(2**-2)
A=np.array([[a0,a1]]); ub=np.array([u0,u1]); lb=np.zeros(2)
b=np.array([u0,u1])@A.T
print('target',b)
print('_range',_range_of_solutions(A,b,lb,ub))


