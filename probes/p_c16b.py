import warnings, sys; warnings.filterwarnings('ignore')
import numpy as np, z3, time
import symnp
from symnp import *
import dreye.api.barycentric as bc
bc.np=NPProxy()
def inv_contract(A):
    A=np.asarray(A).view(np.ndarray); e=E(); n=A.shape[0]
    M=np.empty((n,n),dtype=object)
    for idx in np.ndindex(n,n): M[idx]=S(e.fresh_real('inv'))
    R=A@M
    for i in range(n):
        for j in range(n): e.assume(R[i,j]==(1 if i==j else 0))
    return M.view(SymArray)
symnp._FUNCS[np.linalg.inv]=(lambda A: symnp.linalg_solve(A, np.eye(A.shape[0])) ) if len(sys.argv)>2 else inv_contract
def run(n):
    e=E()
    X=sym('x',(2,n)); L1=sym('L',(2,))
    for r in range(2): e.assume(X[r].sum()==1)
    C=bc.barycentric_to_cartesian(X)
    Bk=bc.cartesian_to_barycentric(C,L1=L1)
    goals=[(Bk[r,j]==L1[r]*X[r,j]).t for r in range(2) for j in range(n)]
    goals+=[(Bk[r].sum()==L1[r]).t for r in range(2)]
    return z3.And(goals)
for n in range(2,int(sys.argv[1])+1):
    eng=Engine(timeout_ms=120000); t0=time.time(); res=[]
    for kind,out in eng.explore(lambda: run(n)):
        res.append(repr(out)[:100] if kind=='exc' else eng.prove(out)[0])
    print(n,res,round(time.time()-t0,2),eng.stats['paths'])
