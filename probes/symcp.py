"""Prototype lazy cvxpy shim (feasibility probe).  Expressions are closures env -> SymArray."""
import numpy as np, z3
from symnp import S, SB, SymArray, E, _wrap, lift, smax

SCS = "SCS"; ECOS = "ECOS"; CLARABEL = "CLARABEL"; OSQP = "OSQP"


def _arr(v):
    if isinstance(v, Expr):
        return v
    return Const(v)


class Expr:
    def __init__(self, fn, shape):
        self.fn = fn; self.shape = tuple(shape)
    def ev(self):
        return self.fn()
    @property
    def size(self): return int(np.prod(self.shape)) if self.shape else 1
    def _bin(self, o, f):
        o = _arr(o)
        shp = np.broadcast_shapes(self.shape, o.shape)
        return Expr(lambda: f(self.ev(), o.ev()), shp)
    def __add__(s, o): return s._bin(o, lambda a, b: a + b)
    __radd__ = __add__
    def __sub__(s, o): return s._bin(o, lambda a, b: a - b)
    def __rsub__(s, o): return _arr(o)._bin(s, lambda a, b: a - b)
    def __mul__(s, o): return s._bin(o, lambda a, b: a * b)
    __rmul__ = __mul__
    def __truediv__(s, o): return s._bin(o, lambda a, b: a / b)
    def __neg__(s): return Expr(lambda: -s.ev(), s.shape)
    def __pow__(s, p): return Expr(lambda: s.ev() ** p, s.shape)
    def __matmul__(s, o):
        o = _arr(o)
        shp = (np.empty(s.shape) @ np.empty(o.shape)).shape
        return Expr(lambda: s.ev() @ o.ev(), shp)
    def __rmatmul__(s, o):
        o = _arr(o)
        shp = (np.empty(o.shape) @ np.empty(s.shape)).shape
        return Expr(lambda: o.ev() @ s.ev(), shp)
    __array_priority__ = 10000
    __array_ufunc__ = None
    def __getitem__(s, idx):
        shp = np.empty(s.shape)[idx].shape
        return Expr(lambda: np.asarray(s.ev())[idx], shp)
    def __le__(s, o): return Constraint(s, _arr(o), "<=")
    def __ge__(s, o): return Constraint(s, _arr(o), ">=")
    def __eq__(s, o): return Constraint(s, _arr(o), "==")
    __hash__ = object.__hash__
    @property
    def T(s): return Expr(lambda: np.asarray(s.ev()).T, s.shape[::-1])


class Const(Expr):
    def __init__(self, v):
        v = np.asarray(v)
        super().__init__(lambda: v, v.shape)


class Leaf(Expr):
    def __init__(self, shape, pos=False, **kw):
        if isinstance(shape, (int, np.integer)): shape = (int(shape),)
        self._value = None; self.pos = pos
        Expr.__init__(self, lambda: self._value, shape)


class Parameter(Leaf):
    @property
    def value(self): return self._value
    @value.setter
    def value(self, v):
        v = np.asarray(v)
        assert v.shape == self.shape, f"Invalid dimensions {v.shape} for Parameter value {self.shape}"
        if self.pos:
            ok = (_wrap(np.asarray(v, dtype=object)) >= 0)
            ok = ok.all() if hasattr(ok, 'all') else ok
            if not ok:
                raise ValueError("Parameter value must be positive.")
        self._value = v


class Variable(Leaf):
    @property
    def value(self): return self._value


class Constraint:
    def __init__(self, l, r, op): self.l, self.r, self.op = l, r, op
    def formula(self):
        a, b = np.broadcast_arrays(np.asarray(self.l.ev(), dtype=object), np.asarray(self.r.ev(), dtype=object))
        out = []
        for x, y in zip(a.ravel(), b.ravel()):
            x, y = lift(x), lift(y)
            out.append({"<=": x <= y, ">=": x >= y, "==": x == y}[self.op])
        return z3.And(out)


def multiply(a, b): return _arr(a) * _arr(b)
def sum(a, axis=None): a = _arr(a); return Expr(lambda: np.sum(a.ev(), axis=axis), np.sum(np.empty(a.shape), axis=axis).shape)
def sum_squares(a): a = _arr(a); return Expr(lambda: np.sum(a.ev() ** 2), ())


class Minimize:
    def __init__(self, e): self.e = _arr(e); self.sign = 1
class Maximize:
    def __init__(self, e): self.e = _arr(e); self.sign = -1


def _vars(e, acc):
    return acc


class Problem:
    registry = []
    def __init__(self, objective, constraints=()):
        self.objective = objective; self.constraints = list(constraints); self.value = None
        self.solves = []
    def is_dcp(self, dpp=False): return True
    def is_dqcp(self): return True
    def variables(self):
        return [v for v in Variable._live]
    def solve(self, **kw):
        e = E()
        for v in Variable._live:
            a = np.empty(v.shape, dtype=object)
            for idx in np.ndindex(*v.shape): a[idx] = S(e.fresh_real("xstar"))
            v._value = a.view(SymArray)
            if v.pos:
                for x in a.ravel(): e.assume(x >= 0)
        for c in self.constraints: e.assume(c.formula())
        obj = self.objective.e.ev()
        self.value = 0.0  # finite
        xstar = {v: v._value for v in Variable._live}
        alt = {}
        for v in Variable._live:
            a = np.empty(v.shape, dtype=object)
            for idx in np.ndindex(*v.shape): a[idx] = S(e.fresh_real("xalt"))
            alt[v] = a.view(SymArray)
        obj_alt, cons_alt = self.objective_at(alt)
        rec = dict(obj=obj, sign=self.objective.sign, xstar=xstar, xalt=alt, obj_alt=obj_alt, cons_alt=cons_alt,
                   params=kw, problem=self)
        self.solves.append(rec)
        return obj

    def objective_at(self, assignment):
        """evaluate objective / constraints with variables bound to `assignment` {var: array}"""
        saved = {v: v._value for v in assignment}
        try:
            for v, a in assignment.items(): v._value = a
            obj = self.objective.e.ev()
            cons = z3.And([c.formula() for c in self.constraints] +
                          [lift(x) >= 0 for v in assignment if v.pos for x in np.asarray(assignment[v]).ravel()])
            return obj, cons
        finally:
            for v, a in saved.items(): v._value = a


Variable._live = []
_orig_init = Variable.__init__
def _vinit(self, *a, **k):
    _orig_init(self, *a, **k); Variable._live.append(self)
Variable.__init__ = _vinit
