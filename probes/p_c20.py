import warnings; warnings.filterwarnings('ignore')
import numpy as np, z3, time, fractions
from symnp import *
import dreye.api.units.convert as cvt
eng=Engine()
def run():
    I=sym('i',(3,)); lam=sym('w',(3,))
    out=cvt.irr2flux(I,lam,prefix='micro')
    back=cvt.flux2irr(out,lam,flux_units='microE')
    return I,lam,out,back
for kind,out in eng.explore(run):
    print(kind, out if kind=='exc' else '')
    if kind=='ok':
        I,lam,o,back=out
        print(type(o), o[0])
        h=fractions.Fraction('6.62607015e-34'); c=fractions.Fraction(299792458); NA=fractions.Fraction('6.02214076e23')
        # I [W/m2/nm] * lam[nm]*1e-9 [m] /(h c NA) [mol/m2/s/nm] ; micro -> *1e6
        kconst=fractions.Fraction(1,10**9)/(h*c*NA)*10**6
        for e in eng.pc: pass
        goals=[]
        for j in range(3):
            spec=I[j].t*lam[j].t*rat(kconst)
            goals.append(z3.And(o[j].t-spec<=rat(fractions.Fraction(1,10**12))*z3.If(spec>=0,spec,-spec), spec-o[j].t<=rat(fractions.Fraction(1,10**12))*z3.If(spec>=0,spec,-spec)))
        t0=time.time(); print(eng.prove(z3.And(goals))[0], time.time()-t0)
        g2=[z3.And(back[j].t-I[j].t<=rat(fractions.Fraction(1,10**12))*z3.If(I[j].t>=0,I[j].t,-I[j].t), I[j].t-back[j].t<=rat(fractions.Fraction(1,10**12))*z3.If(I[j].t>=0,I[j].t,-I[j].t)) for j in range(3)]
        t0=time.time(); print('roundtrip',eng.prove(z3.And(g2),extra=[lam[j].t>=100 for j in range(3)])[0], time.time()-t0)
