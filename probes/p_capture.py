import time, numpy as np, z3
np.trapz=np.trapezoid  # probe only
from sym import *
from dreye.api.capture import calculate_capture
nf,ns,nd=3,3,5
F=sym_array('f',(nf,nd)); Sg=sym_array('s',(ns,nd)); D=sym_array('d',(nd,))
t0=time.time()
out=calculate_capture(F,Sg,domain=D)
print(out.shape, type(out[0,0]), time.time()-t0)
# spec: out[i,j] = sum_k (d[k+1]-d[k]) * (s[i,k]f[j,k] + s[i,k+1]f[j,k+1])/2
s=z3.Solver()
neg=[]
for i in range(ns):
  for j in range(nf):
    spec=sum(((D[k+1].t-D[k].t)*(Sg[i,k].t*F[j,k].t+Sg[i,k+1].t*F[j,k+1].t)/2 for k in range(nd-1)))
    neg.append(out[i,j].t!=spec)
s.add(z3.Or(neg))
t0=time.time(); print(s.check(), time.time()-t0)
# batch axes
F3=sym_array('f',(2,nf,nd)); S3=sym_array('s',(2,ns,nd))
out=calculate_capture(F3,S3,domain=2.0); print(out.shape)
out=calculate_capture(F3,S3,domain=2.0,trapz=False); print(out.shape, out[0,0,0])
# mutated: swap index order
s=z3.Solver(); out=calculate_capture(F,Sg,domain=D)
spec=sum(((D[k+1].t-D[k].t)*(Sg[1,k].t*F[0,k].t+Sg[1,k+1].t*F[0,k+1].t)/2 for k in range(nd-1)))
s.add(out[0,1].t!=spec); t0=time.time(); r=s.check(); print('mutant-like',r,time.time()-t0)
if r==z3.sat: print(str(s.model())[:200])
