"""Probe: symbolic scalars inside numpy object arrays."""
import z3, numpy as np, fractions
class PathFork(BaseException): pass
class Ctx:
    def __init__(self): self.decisions=[]; self.pos=0; self.pc=[]; self.solver=z3.Solver()
CTX=None
def lift(v):
    if isinstance(v,S): return v.t
    if isinstance(v,(bool,np.bool_)): raise TypeError
    if isinstance(v,(int,np.integer)): return z3.RealVal(int(v))
    if isinstance(v,(float,np.floating)):
        f=fractions.Fraction(float(v)); return z3.RealVal(f"{f.numerator}/{f.denominator}")
    if isinstance(v,fractions.Fraction): return z3.RealVal(f"{v.numerator}/{v.denominator}")
    raise TypeError(type(v))
class S:
    __array_priority__=1000
    __slots__=('t',)
    def __init__(s,t): s.t=t
    def _b(s,o,f):
        try: return S(z3.simplify(f(s.t,lift(o))))
        except TypeError: return NotImplemented
    def __add__(s,o): return s._b(o,lambda a,b:a+b)
    def __radd__(s,o): return s._b(o,lambda a,b:b+a)
    def __sub__(s,o): return s._b(o,lambda a,b:a-b)
    def __rsub__(s,o): return s._b(o,lambda a,b:b-a)
    def __mul__(s,o): return s._b(o,lambda a,b:a*b)
    def __rmul__(s,o): return s._b(o,lambda a,b:b*a)
    def __truediv__(s,o): return s._b(o,lambda a,b:a/b)
    def __rtruediv__(s,o): return s._b(o,lambda a,b:b/a)
    def __neg__(s): return S(-s.t)
    def __pos__(s): return s
    def __pow__(s,o):
        if isinstance(o,(int,np.integer)) and o>=0:
            r=S(z3.RealVal(1))
            for _ in range(int(o)): r=r*s
            return r
        return NotImplemented
    def __repr__(s): return f"S({s.t})"
def sym_array(name,shape):
    a=np.empty(shape,dtype=object)
    for idx in np.ndindex(*shape): a[idx]=S(z3.Real(name+'_'+'_'.join(map(str,idx))))
    return a
