"""Angle abstraction for the n-sphere transforms (C16).

arccos(c) is a fresh symbol theta (shared per canonical argument) with, for -1 <= c <= 1:
    0 <= theta <= pi,  cos(theta) = c,  sin(theta) = s with s >= 0 and s^2 = 1 - c^2,
    cos(2 pi - theta) = cos(theta),  sin(2 pi - theta) = -sin(theta)
cos / sin are uninterpreted functions with cos(0) = 1, sin(0) = 0; they distribute over If-terms.  pi is a symbolic constant with
3.14159 < pi < 3.1416.  Nothing else about trigonometry is assumed.
"""
import numpy as np
import z3

from . import symnp
from .symnp import E, S, lift

COS = z3.Function("cos", z3.RealSort(), z3.RealSort())
SIN = z3.Function("sin", z3.RealSort(), z3.RealSort())
PI = z3.Real("pi")


def pi():
    e = E()
    if "pi" not in e.notes:
        e.define(z3.And(PI > z3.RealVal("314159/100000"), PI < z3.RealVal("31416/10000"), COS(z3.RealVal(0)) == 1, SIN(z3.RealVal(0)) == 0))
        e.def_of["pi"] = e.defs[-1]
        e.notes["pi"] = S(PI)
    return e.notes["pi"]


def _nonfinite(v):
    return isinstance(v, (float, np.floating)) and not np.isfinite(v)


def arccos(v):
    if _nonfinite(v):
        return float("nan")  # numpy: arccos(nan) = arccos(+-inf) = nan (and goes on)
    e = E()
    pi()
    c = e.canon(lift(v))
    if z3.is_rational_value(c) and c.numerator_as_long() == c.denominator_as_long():
        return S(z3.RealVal(0))
    k = "arccos:" + symnp.poly_key(c)
    if k not in e.notes:
        th = e.fresh_real("theta")
        s = e.fresh_real("sinth")
        two_pi_minus = z3.simplify(2 * PI - th)
        e.define(z3.Implies(z3.And(c >= -1, c <= 1), z3.And(th >= 0, th <= PI, COS(th) == c, SIN(th) == s, s >= 0, s * s == 1 - c * c,
                                                         COS(two_pi_minus) == c, SIN(two_pi_minus) == -s)))
        e.def_of[th.decl().name()] = e.defs[-1]
        e.notes[k] = S(th)
    return e.notes[k]


def _apply(F, t):
    t = z3.simplify(t)
    if z3.is_app(t) and t.decl().kind() == z3.Z3_OP_ITE:
        return z3.If(t.arg(0), _apply(F, t.arg(1)), _apply(F, t.arg(2)))
    if z3.is_rational_value(t) and t.numerator_as_long() == 0:
        return z3.RealVal(1) if F is COS else z3.RealVal(0)
    return F(t)


def cos(v):
    if _nonfinite(v):
        return float("nan")
    pi()
    return S(_apply(COS, lift(v)))


def sin(v):
    if _nonfinite(v):
        return float("nan")
    pi()
    return S(_apply(SIN, lift(v)))


def install():
    symnp._UFUNC_HOOKS[np.arccos] = arccos
    symnp._UFUNC_HOOKS[np.cos] = cos
    symnp._UFUNC_HOOKS[np.sin] = sin
