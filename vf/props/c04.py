"""C04 the default fit is the global bounded weighted least-squares optimum."""
import numpy as np
import z3

from vf import fitspec as fs
from vf import symcp, symnp
from vf.symnp import S, SB

META = dict(
    functions=["dreye.api.optimize.lsq_linear.lsq_linear", "_prepare_parameters", "_prepare_variables", "_solve_problem",
               "dreye.api.optimize.utils.prepare_parameters_for_linear", "get_batch_size", "dreye.api.optimize.parallel.batched_iteration",
               "diagonal_stack", "concat", "dreye.api.utils.transform_values", "apply_linear_transform", "ensure_bounds", "ensure_value",
               "predict_values", "ReceptorEstimator.fit (gaussian wiring of A, lb, ub, W, K, baseline)"],
    bounds=dict(quick="(receptors x sources) in {(1,2),(2,2),(3,2),(2,3),(3,4)}, 1-2 target rows, batch size 1; W none / per-receptor / per-sample (>0); "
                      "K none / length-1 / vector / square matrix; baseline none / length-1 / vector; lb default / 0 / symbolic >= 0 / symbolic any sign; "
                      "ub default (inf) / symbolic finite >= lb; everything else symbolic",
                thorough="adds (4,5),(5,8),(4,3) and 3 target rows"),
    stubs=["cvxpy -> symcp: Problem.solve() returns a feasible point x* with the optimality contract instantiated at explicit competitors; "
           "Variable(pos)/Parameter(pos) semantics as in cvxpy/expressions/leaf.py; is_dcp/is_dpp answered True (DCP-ness is exercised by the "
           "real cvxpy in the float half of translator validation)", "scipy.linalg.block_diag -> exact block placement"],
    assumptions=["real arithmetic", "weights > 0", "lb <= ub", "the cvxpy back end returns a global optimum of the problem it is handed (contract)"],
    outside=["achieved solver accuracy (2e-2 / 2e-3 figures), optimal_inaccurate statuses, isfinite(problem.value) as convergence test"],
)


def patches(case):
    return fs.fit_patches()


def fit_case(M, m, n, rows, kkind, bkind, wkind, lbkind, ubkind, via="function"):
    from dreye.api.optimize.lsq_linear import lsq_linear
    A, K, base, lb, ub, lbl, ubl = fs.mk_system(M, m, n, kkind, bkind, lbkind, ubkind)
    B = M.real("B", (rows, m), sample=lambda r, s: r.uniform(0.2, 4.0, size=s))
    W = {"none": lambda: None, "vec": lambda: M.real("W", (m,), sample=lambda r, s: r.uniform(0.5, 2.0, size=s)),
         "mat": lambda: M.real("W", (rows, m), sample=lambda r, s: r.uniform(0.5, 2.0, size=s))}[wkind]()
    if W is not None:
        for v in np.asarray(W).ravel():
            M.assume(v > 0)
    xc = M.real("xc", (rows, n), sample=lambda r, s: r.uniform(0.3, 1.0, size=s))
    symcp.reset()
    if via == "function":
        X, Bp = lsq_linear(A, B, lb=lb, ub=ub, W=W, K=K, baseline=base, return_pred=True)
    else:
        from dreye.api.estimator import ReceptorEstimator
        kw = {}
        if K is not None:
            kw["K"] = K
        if base is not None:
            kw["baseline"] = base
        if W is not None and np.ndim(W) == 1:
            kw["w"] = W
        est = ReceptorEstimator(np.ones((m, 2)), **kw)
        est.A = A; est.Epsilon = "heteroscedastic"
        est.lb = np.zeros(n) if lb is None else lb
        est.ub = np.full(n, np.inf) if ub is None else ub
        if W is not None and np.ndim(W) == 2:
            est.register_targets(B, W)
            est.fit()
            X, Bp = est.X, est.B
        else:
            X, Bp = est.fit(B)
    X = np.asarray(X); Bp = np.asarray(Bp)
    M.observe("Bp-minus-model", Bp - np.array([fs.predict(*fs.effective_model(A, K, base, kkind), list(X[i])) for i in range(rows)], dtype=object if M.symbolic else float)
              if X.shape == (rows, n) else None)
    Aeff, beff = fs.effective_model(A, K, base, kkind)
    goals = {"shapes": X.shape == (rows, n) and Bp.shape == (rows, m)}
    if not goals["shapes"]:
        return goals
    solves = list(symcp.SOLVES)
    if M.symbolic:
        goals["one solve per row"] = len(solves) == rows
        goals["lemma: a weighted sum of squares is >= 0 and vanishes only if every residual does (all reals, weights > 0)"] = fs.sos_lemma(M, m)
    for i in range(rows):
        w = fs.weights(W, i, m)
        xi = list(X[i]); ci = list(xc[i]); bi = list(np.asarray(B)[i])
        goals[f"row{i}: prediction = K(A X + baseline)"] = M.eq(Bp[i], np.array(fs.predict(Aeff, beff, xi), dtype=object if M.symbolic else float))
        f_x = fs.sq_error(Aeff, beff, w, bi, xi)
        f_c = fs.sq_error(Aeff, beff, w, bi, ci)
        c_ok = fs.in_bounds(M, ci, lbl, ubl)
        if M.symbolic:
            goals[f"row{i}: bounds respected"] = fs.in_bounds(M, xi, lbl, ubl)
            if len(solves) == rows:
                rec = solves[i]
                var = rec["problem"].variables()[0]
                inst, obj_alt, cons_alt = symcp.optimality_instance(rec, fs.row_block_alt(rec, var, 0, n, ci))
                goals[f"row{i}: global optimum of the weighted squared error over the bounds"] = (M.implies(c_ok, M.le(f_x, f_c)), [inst])
                # the problem handed to the solver must be feasible whenever the documented one is (checked without the stub's own assumption)
                goals[f"row{i}: solver problem feasible"] = (M.implies(c_ok, SB(cons_alt)), [], dict(pc_upto=rec["pc_before"]))
                # zero error <=> in gamut
                repro = M.conj(c_ok, M.eq(np.array(fs.predict(Aeff, beff, ci), dtype=object), np.array(bi, dtype=object)))
                # "in gamut => zero error" = optimality (above) + the two lemmas below (f_x <= f_c = 0 <= f_x)
                goals[f"row{i}: in gamut => zero error [lemma: a reproducing competitor has zero error]"] = M.implies(repro, M.eq(f_c, 0))
                # ... [lemma: the error, a weighted sum of squares by construction, is non-negative] is the closed lemma "sum of squares" below
                # "zero error => reproduced by the returned in-bound intensities": bounds respected (above) + the closed sum-of-squares lemma
                # instantiated at the residuals w_j (K(A X + baseline) - b)_j, whose weighted squares f_x is by construction
        else:
            # float mode (replay / translator validation): tolerances of the property (default solver settings)
            rng_ = 1.0 if ubl is None else max(1e-9, float(np.max(np.array(ubl) - np.array(lbl))))
            tolb = 0.01 * rng_ if ubl is not None else 0.01
            goals[f"row{i}: bounds respected"] = bool(np.all(np.array(xi) >= np.array(lbl) - tolb) and (ubl is None or np.all(np.array(xi) <= np.array(ubl) + tolb)))
            xo = fs.scipy_bvls(Aeff, beff, w, bi, lbl, ubl)
            f_o = fs.sq_error(Aeff, beff, w, bi, list(xo))
            best = min(float(f_o), float(f_c) if c_ok else np.inf)
            goals[f"row{i}: global optimum of the weighted squared error over the bounds"] = bool(np.sqrt(float(f_x)) <= np.sqrt(best) + 2e-2 * max(1.0, float(np.max(w))))
    return goals


def cases(tier, seed):
    C = []

    def add(name, **kw):
        C.append(dict(name=name, body="fit_case", kwargs=kw, opts=dict(timeout_ms=60000, n_validate=1)))
    big = tier == "thorough"
    rows = 2
    # full option grid on a small system
    for kkind in ("none", "scalar", "vec", "mat"):
        for bkind in ("none", "scalar", "vec"):
            for wkind in ("none", "vec", "mat"):
                add(f"2x3 K={kkind} base={bkind} W={wkind} lb=pos ub=fin", m=2, n=3, rows=rows, kkind=kkind, bkind=bkind, wkind=wkind, lbkind="pos", ubkind="fin")
    for lbkind, ubkind in (("default", "default"), ("zero", "inf"), ("any", "fin"), ("zero", "fin"), ("pos", "inf"), ("any", "inf")):
        add(f"2x3 K=vec base=vec W=vec lb={lbkind} ub={ubkind}", m=2, n=3, rows=rows, kkind="vec", bkind="vec", wkind="vec", lbkind=lbkind, ubkind=ubkind)
    shapes = [(1, 2), (2, 2), (3, 2), (3, 4)] + ([(4, 5), (5, 8), (4, 3)] if big else [])
    for m, n in shapes:
        for kkind, bkind, wkind in (("vec", "vec", "mat"), ("mat", "vec", "vec"), ("none", "none", "none")):
            add(f"{m}x{n} K={kkind} base={bkind} W={wkind} lb=pos ub=fin", m=m, n=n, rows=(3 if big else (1 if (m, n) == (3, 4) else 2)), kkind=kkind, bkind=bkind, wkind=wkind, lbkind="pos", ubkind="fin")
    for kkind, bkind, wkind in (("vec", "vec", "vec"), ("mat", "vec", "mat"), ("scalar", "scalar", "none"), ("none", "vec", "mat")):
        add(f"estimator.fit 2x3 K={kkind} base={bkind} W={wkind}", m=2, n=3, rows=2, kkind=kkind, bkind=bkind, wkind=wkind, lbkind="pos", ubkind="fin", via="estimator")
    return C
