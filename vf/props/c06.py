"""C06 range of solutions is the exact per-source extent of the solution polytope."""
import fractions
import itertools

import numpy as np
import z3

from vf import fitspec as fs
from vf import harness, stubs, symcp, symnp
from vf.symnp import S, SB, lift

META = dict(
    functions=["dreye.api.convex.range_of_solutions", "_range_of_solutions", "_spaced_solutions", "get_P_from_A", "in_hull (gate)", "dreye.api.utils.transform_values",
               "ReceptorEstimator.range_of_solutions (wiring)"],
    bounds=dict(quick="capture matrix A CONCRETE (exact rationals) from a catalogue: 2x3 (random well-conditioned x2, zero entry, proportional columns, "
                      "receptor seeing one source, equal-entry column), 2x4 (two surplus sources, spaced solutions only); symbolic target (any in-gamut target, "
                      "given as A x0 for symbolic in-bound x0: interior, face, edge and vertex targets alike), symbolic 0 <= lb < ub, symbolic baseline; spaced solutions n in {2,3}",
                thorough="adds the 3x4 system (extent without the attainment clause, 5 spaced solutions)"),
    stubs=["membership gate (Delaunay): answers True for the in-gamut cases and False for the out-of-gamut cases (membership exactness is C03)",
           "cvxpy -> symcp for the best-fit fallback", "np.linalg.solve -> exact Cramer solve; LinAlgError iff the (concrete) determinant is 0"],
    assumptions=["real arithmetic (exact comparisons are exact); the rounding-sensitivity of these comparisons is the separate perturbed-comparison layer (known finding F10)",
                 "A concrete per catalogue entry: a bound, not a proof for all A (fully symbolic A was probed and is out of reach)"],
    outside=["matrices outside the catalogue", "float rounding except in the tie layer",
             "systems with two or more surplus sources (2x4, 3x5): the symbolic extent proof did not finish within the 3600 s case limit (probed, with and without the attainment clause); "
             "the 2x4 spaced case runs in exact arithmetic on sampled inputs only", "attainment of the reported ends for the 3x4 system (unknown after 60 s on 4 of 225 paths)"],
)

R = fractions.Fraction
CATALOGUE = {
    "2x3-rand1": [[R(31, 10), R(12, 10), R(5, 10)], [R(7, 10), R(29, 10), R(16, 10)]],
    "2x3-rand2": [[R(47, 10), R(21, 10), R(33, 10)], [R(12, 10), R(38, 10), R(9, 10)]],
    "2x3-zero": [[R(2), R(0), R(1)], [R(1, 2), R(3), R(1)]],
    "2x3-proportional": [[R(1), R(2), R(1)], [R(1), R(2), R(3)]],
    "2x3-single-source-receptor": [[R(1), R(1, 5), R(3, 10)], [R(1, 2), R(0), R(0)]],
    "2x3-equal-column": [[R(2), R(1), R(1, 2)], [R(2), R(3), R(1)]],
    "3x4-rand1": [[R(31, 10), R(12, 10), R(5, 10), R(2)], [R(7, 10), R(29, 10), R(16, 10), R(1)], [R(1), R(1, 2), R(4), R(3, 2)]],
    "2x4-rand1": [[R(31, 10), R(12, 10), R(5, 10), R(2)], [R(7, 10), R(29, 10), R(16, 10), R(1)]],
    "3x5-rand1": [[R(31, 10), R(12, 10), R(5, 10), R(2), R(1)], [R(7, 10), R(29, 10), R(16, 10), R(1), R(2)], [R(1), R(1, 2), R(4), R(3, 2), R(3)]],
    "4x5-rand1": [[R(31, 10), R(12, 10), R(5, 10), R(2), R(1)], [R(7, 10), R(29, 10), R(16, 10), R(1), R(2)], [R(1), R(1, 2), R(4), R(3, 2), R(3)],
                  [R(2), R(1), R(1), R(5, 2), R(1, 2)]],
}


def patches(case):
    return fs.fit_patches() + stubs.qhull_patches(("dreye.api.convex",))


class _Gate:
    """membership gate for this property: the oracle's answer is fixed by the case (in / out of gamut)"""
    answer = True

    def __init__(self, points, qhull_options=None):
        self.points = points

    def find_simplex(self, B):
        B = np.atleast_2d(np.asarray(B))
        return np.full(B.shape[0], 0 if _Gate.answer else -1)


def _patches_gate():
    import dreye.api.convex as cv
    return [(cv, "Delaunay", _Gate)]


def patches(case):  # noqa: F811
    return fs.fit_patches() + _patches_gate()


def _A(M, cat):
    rows = CATALOGUE[cat]
    if M.symbolic:
        return symnp.const(np.array([[v for v in r] for r in rows], dtype=object))
    return np.array([[float(v) for v in r] for r in rows])


def _setup(M, cat, with_base, face_samples=False, int_bounds=None, scale=None):
    A = _A(M, cat)
    m, n = np.asarray(A).shape
    if scale is not None:
        # intensities in very small units: A grows by 1/scale, the sampled bounds shrink by scale (captures stay O(1)); symbolically nothing changes but A
        A = np.asarray(A) * (symnp.const(fractions.Fraction(1) / fractions.Fraction(scale)) if M.symbolic else 1.0 / float(fractions.Fraction(scale)))
        A = A.view(symnp.SymArray) if M.symbolic else A
    if int_bounds is not None:
        # bounds typed the way users write them: integer lists (the arrays the code allocates from them must still hold real numbers)
        # (exact constants in the symbolic / exact-arithmetic runs, where typing is invisible; genuine int64 arrays in the run of the real code)
        lb = np.array(int_bounds[0][:n], dtype=np.int64); ub = np.array(int_bounds[1][:n], dtype=np.int64)
        if M.symbolic:
            lb = symnp.const(lb.astype(float)); ub = symnp.const(ub.astype(float))
    else:
        sc_ = 1.0 if scale is None else float(fractions.Fraction(scale))
        lb = M.real("lb", (n,), sample=lambda r, s: r.choice([0.0, 0.1, 0.25], size=s) * sc_)
        ub = M.real("ub", (n,), sample=lambda r, s: r.uniform(1.0, 3.0, size=s) * sc_)
        for j in range(n):
            M.assume(lb[j] >= 0); M.assume(ub[j] > lb[j])
    # x0: any in-bound intensities; the target is their capture (interior, face, edge and vertex targets are all covered)
    # concrete modes sample interior targets only: face / vertex targets hit the rounding defect F10 in float64 (they are covered symbolically,
    # in exact arithmetic, and by the tie layer)
    t = M.real("t0", (n,), sample=(lambda r, s: r.choice([0.0, 1.0, 0.5, 0.3, 0.8], size=s)) if face_samples else (lambda r, s: r.uniform(0.15, 0.85, size=s)))
    for j in range(n):
        M.assume(t[j] >= 0); M.assume(t[j] <= 1)
    base = M.real("base", (m,), sample=lambda r, s: r.uniform(0.0, 0.5, size=s)) if with_base else None
    return A, m, n, lb, ub, t, base


def extent_case(M, cat, via="helper", attain=True, with_base=False, int_bounds=None):
    from dreye.api.convex import _range_of_solutions, range_of_solutions
    A, m, n, lb, ub, t, base = _setup(M, cat, with_base, int_bounds=int_bounds)
    if M.symbolic:
        x0 = [lb[j] + t[j] * (ub[j] - lb[j]) for j in range(n)]
    else:
        x0 = list(np.asarray(lb) + np.asarray(t) * (np.asarray(ub) - np.asarray(lb)))
    Arows = np.asarray(A)
    b = np.array([fs._sum([Arows[i, j] * x0[j] for j in range(n)]) for i in range(m)], dtype=object if M.symbolic else float)
    if M.symbolic:
        b = b.view(symnp.SymArray)
    _Gate.answer = True
    if via == "helper":
        mins, maxs = _range_of_solutions(A, b, lb, ub)
    else:
        btot = b + (np.asarray(base) if base is not None else 0)
        mins, maxs = range_of_solutions(btot, A, lb, ub, baseline=base)
    mins = np.asarray(mins); maxs = np.asarray(maxs)
    M.observe("mins", mins); M.observe("maxs", maxs)
    goals = {"shapes": mins.shape == (n,) and maxs.shape == (n,)}
    if not goals["shapes"]:
        return goals
    goals["the generating intensities lie between the reported ends"] = M.conj(M.le(mins, np.array(x0, dtype=object if M.symbolic else float)),
                                                                           M.le(np.array(x0, dtype=object if M.symbolic else float), maxs))
    goals["min <= max and both within the bounds"] = M.conj(M.le(mins, maxs), M.le(np.asarray(lb), mins), M.le(maxs, np.asarray(ub)))
    if M.symbolic:
        # soundness for EVERY reproducing in-bound x (fresh symbols), attainment by quantified linear arithmetic
        xs = [z3.Real(f"xany_{j}") for j in range(n)]
        feas = z3.And([xs[j] >= lift(lb[j]) for j in range(n)] + [xs[j] <= lift(ub[j]) for j in range(n)] +
                      [z3.Sum([lift(Arows[i, j]) * xs[j] for j in range(n)]) == lift(b[i]) for i in range(m)])
        goals["every in-bound intensity vector reproducing the target lies between the reported ends"] = (
            SB(z3.And([z3.And(lift(mins[j]) <= xs[j], xs[j] <= lift(maxs[j])) for j in range(n)])), [feas])
        if attain:
            goals["each reported end is attained by some in-bound reproducing intensity vector"] = SB(z3.And(
                [z3.Exists(xs, z3.And(feas, xs[k] == lift(mins[k]))) for k in range(n)] + [z3.Exists(xs, z3.And(feas, xs[k] == lift(maxs[k]))) for k in range(n)]))
    else:
        lo, hi = lp_extent(Arows, np.asarray(b, dtype=float), np.asarray(lb, dtype=float), np.asarray(ub, dtype=float))
        goals["reported ends equal the LP extent"] = bool(np.allclose(mins, lo, atol=1e-6) and np.allclose(maxs, hi, atol=1e-6))
    return goals


def lp_extent(A, b, lb, ub):
    from scipy.optimize import linprog
    n = A.shape[1]
    lo = np.zeros(n); hi = np.zeros(n)
    for k in range(n):
        c = np.zeros(n); c[k] = 1
        r1 = linprog(c, A_eq=A, b_eq=b, bounds=list(zip(lb, ub)), method="highs")
        r2 = linprog(-c, A_eq=A, b_eq=b, bounds=list(zip(lb, ub)), method="highs")
        lo[k] = r1.fun if r1.status == 0 else np.nan
        hi[k] = -r2.fun if r2.status == 0 else np.nan
    return lo, hi


def spaced_case(M, cat, nsp, via="public", scale=None):
    from dreye.api.convex import range_of_solutions
    A, m, n, lb, ub, t, base = _setup(M, cat, True, scale=scale)
    x0 = [lb[j] + t[j] * (ub[j] - lb[j]) for j in range(n)]
    Arows = np.asarray(A)
    b = np.array([fs._sum([Arows[i, j] * x0[j] for j in range(n)]) for i in range(m)], dtype=object if M.symbolic else float)
    btot = (b.view(symnp.SymArray) if M.symbolic else b) + np.asarray(base)
    _Gate.answer = True
    out = range_of_solutions(btot, A, lb, ub, baseline=base, n=nsp)
    goals = {"three return values": len(out) == 3}
    if len(out) != 3:
        return goals
    mins, maxs, Xs = out
    Xs = np.asarray(Xs)
    M.observe("Xs", Xs)
    goals["spaced solutions have one column per source"] = Xs.ndim == 2 and Xs.shape[1] == n and Xs.shape[0] >= 1
    if not goals["spaced solutions have one column per source"]:
        return goals
    gs_b, gs_r = [], []
    for r in range(Xs.shape[0]):
        x = list(Xs[r])
        gs_b.append(M.conj(M.le(np.asarray(lb), np.array(x, dtype=object if M.symbolic else float)), M.le(np.array(x, dtype=object if M.symbolic else float), np.asarray(ub))))
        gs_r.append(M.eq(np.array([fs._sum([Arows[i, j] * x[j] for j in range(n)]) for i in range(m)], dtype=object if M.symbolic else float), b))
    goals["every spaced solution lies within the bounds"] = M.conj(*gs_b)
    if scale is not None and not M.symbolic:
        # float64 run: tolerance relative to the (tiny) width of the bounds
        w_ = float(np.max(np.asarray(ub, dtype=float) - np.asarray(lb, dtype=float)))
        goals["every spaced solution lies within the bounds"] = bool(np.all(Xs >= np.asarray(lb, dtype=float) - 1e-6 * w_) and np.all(Xs <= np.asarray(ub, dtype=float) + 1e-6 * w_))
    goals["every spaced solution reproduces the target"] = M.conj(*gs_r)
    return goals


def outside_case(M, cat, error):
    """out-of-gamut target: raises, or (ignore / warn) returns the best fit as both ends"""
    from dreye.api.convex import range_of_solutions
    A = _A(M, cat)
    m, n = np.asarray(A).shape
    lb = M.real("lb", (n,), sample=lambda r, s: r.choice([0.0, 0.2, 0.3], size=s)); ub = M.real("ub", (n,), sample=lambda r, s: r.uniform(1.0, 2.0, size=s))
    for j in range(n):
        M.assume(lb[j] >= 0); M.assume(ub[j] > lb[j])
    # concrete modes: targets far too bright (upper bounds active) or far too dim / unbalanced (lower bounds active)
    base = M.real("base", (m,), sample=lambda r, s: r.uniform(0.5, 2.0, size=s))
    base_hint = np.asarray(base, dtype=float) if not M.symbolic else 0.0
    b = M.real("b", (m,), sample=lambda r, s: (r.uniform(30.0, 40.0, size=s) * np.array([1.0] + [0.01] * (s[0] - 1))) if r.random() < 0.5
               else r.uniform(0.001, 0.01, size=s) + base_hint)
    xc = M.real("xc", (n,), sample=lambda r, s: r.uniform(0.3, 0.9, size=s))
    _Gate.answer = False
    symcp.reset()
    import warnings
    try:
        with warnings.catch_warnings():
            warnings.simplefilter("ignore")
            mins, maxs = range_of_solutions(b, A, lb, ub, baseline=base, error=error)
    except ValueError:
        return {"out-of-gamut target raises ValueError when error='raise'": error == "raise"}
    if error == "raise":
        return {"out-of-gamut target raises ValueError when error='raise'": False}
    mins = np.asarray(mins); maxs = np.asarray(maxs)
    goals = {"both ends are the same vector": M.eq(mins, maxs)}
    Arows = np.asarray(A)
    Aeff = [[Arows[i, j] for j in range(n)] for i in range(m)]
    w = [1] * m
    lbl, ubl = list(lb), list(ub)
    bb = list(base)
    f_x = fs.sq_error(Aeff, bb, w, list(b), list(mins)); f_c = fs.sq_error(Aeff, bb, w, list(b), list(xc))
    if M.symbolic:
        goals["the returned vector is within the bounds"] = fs.in_bounds(M, list(mins), lbl, ubl)
        if len(symcp.SOLVES) == 1:
            rec = symcp.SOLVES[0]; var = rec["problem"].variables()[0]
            inst, _, _ = symcp.optimality_instance(rec, {var: np.array(list(xc), dtype=object).view(symnp.SymArray)})
            goals["the returned vector is the best bounded least-squares fit"] = (M.implies(fs.in_bounds(M, list(xc), lbl, ubl), M.le(f_x, f_c)), [inst])
        else:
            goals["one best-fit solve"] = False
    else:
        goals["the returned vector is within the bounds"] = bool(np.all(np.asarray(mins, dtype=float) >= np.asarray(lbl, dtype=float) - 1e-2) and
                                                               np.all(np.asarray(mins, dtype=float) <= np.asarray(ubl, dtype=float) + 1e-2))
        xo = fs.scipy_bvls(Aeff, bb, w, list(b), lbl, ubl)
        goals["the returned vector is the best bounded least-squares fit"] = bool(np.sqrt(float(f_x)) <= np.sqrt(float(fs.sq_error(Aeff, bb, w, list(b), list(xo)))) + 2e-2)
    return goals


def tie_case(M, cat):
    """perturbed-comparison layer: every `>=` / `<=` inside the enumeration is decided with a margin delta (a computed candidate may be off by a
    rounding error).  sat = there are in-gamut targets for which the acceptance of every extremal candidate hinges on an exact tie."""
    from dreye.api.convex import _range_of_solutions
    A, m, n, lb, ub, t, base = _setup(M, cat, False, face_samples=True)
    x0 = [lb[j] + t[j] * (ub[j] - lb[j]) for j in range(n)]
    Arows = np.asarray(A)
    b = np.array([fs._sum([Arows[i, j] * x0[j] for j in range(n)]) for i in range(m)], dtype=object if M.symbolic else float)
    if M.symbolic:
        b = b.view(symnp.SymArray)
        eng = symnp.E()
        d = z3.Real("delta_tie")
        eng.assume(z3.And(d > 0, d < z3.RealVal("1/1000000000")))
        eng.perturb = d
        try:
            mins, maxs = _range_of_solutions(A, b, lb, ub)
        finally:
            eng.perturb = None
    else:
        mins, maxs = _range_of_solutions(A, b, lb, ub)
    mins = np.asarray(mins); maxs = np.asarray(maxs)
    x0a = np.array(x0, dtype=object if M.symbolic else float)
    return {"rounding-robust: the generating intensities lie between the reported ends": M.conj(M.le(mins, x0a), M.le(x0a, maxs)),
            "rounding-robust: min <= max": M.le(mins, maxs)}


def cases(tier, seed):
    C = []
    big = tier == "thorough"

    def add(name, body, opts=None, **kw):
        o = dict(timeout_ms=60000, n_validate=2, max_paths=5000)
        o.update(opts or {})
        C.append(dict(name=name, body=body, kwargs=kw, opts=o))
    for cat in ("2x3-rand1", "2x3-rand2", "2x3-zero", "2x3-proportional", "2x3-single-source-receptor", "2x3-equal-column"):
        add(f"extent {cat}", "extent_case", cat=cat)
        add(f"spaced {cat} n=3", "spaced_case", cat=cat, nsp=3)
    add("extent 2x3-rand1 via range_of_solutions with baseline", "extent_case", cat="2x3-rand1", via="public", with_base=True)
    add("extent 2x3-rand1 via range_of_solutions, integer-typed bounds [0,0,0]..[3,2,4]", "extent_case", cat="2x3-rand1", via="public", int_bounds=([0, 0, 0, 0, 0], [3, 2, 4, 3, 2]),
        opts=dict(float_strict=True, n_validate=3))
    add("extent 2x3-rand2 helper, integer-typed bounds [0,1,0]..[2,5,3]", "extent_case", cat="2x3-rand2", int_bounds=([0, 1, 0, 0, 0], [2, 5, 3, 3, 2]),
        opts=dict(float_strict=True, n_validate=3))
    add("spaced 2x3-rand1 n=2", "spaced_case", cat="2x3-rand1", nsp=2)
    add("spaced 2x3-rand1 n=3, sampled intensities in units of 1e-9", "spaced_case", cat="2x3-rand1", nsp=3, scale="1/1000000000")
    C[-1]["opts"]["n_validate"] = 3
    if big:
        # 3 receptors x 4 sources: all clauses except attainment of the ends (that clause returned unknown for 4 of 225 paths after 60 s each)
        add("extent 3x4-rand1 (bounds, containment, maximal extent)", "extent_case", cat="3x4-rand1", attain=False, opts=dict(max_paths=20000))
    # two surplus sources: the recursive construction multiplies the mask forks beyond reach of path exploration (a single path takes minutes).
    # NOT decided symbolically; only exercised in exact rational arithmetic on sampled inputs (translator-validation machinery), stated as such.
    add("spaced 2x4-rand1 n=2 (two surplus sources; exact arithmetic on sampled inputs only)", "spaced_case", cat="2x4-rand1", nsp=2,
        opts=dict(skip_sym=True, n_validate=(6 if big else 3), max_paths=2000))
    for error in ("raise", "ignore", "warn"):
        add(f"outside 2x3-rand1 error={error}", "outside_case", cat="2x3-rand1", error=error)
    add("tie 2x3-rand1 (perturbed comparisons)", "tie_case", cat="2x3-rand1")
    if big:
        # probed and dropped: "extent 2x4-rand1" and "extent 3x5-rand1" (two surplus sources) did not finish within the 3600 s case limit, with or without the
        # attainment clause (stated as outside the bound)
        add("spaced 3x4-rand1 n=5", "spaced_case", cat="3x4-rand1", nsp=5)
    return C
