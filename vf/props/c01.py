"""C01 capture = trapezoid integral of filter x signal, pairwise and linear."""
import itertools

import numpy as np

from vf import harness

META = dict(
    functions=["dreye.api.capture.calculate_capture", "dreye.api.utils.integral", "dreye.api.utils._keepdims_slice_helper",
               "dreye.api.estimator.ReceptorEstimator.__init__", "ReceptorEstimator.capture", "ReceptorEstimator._check_domain"],
    bounds=dict(
        quick="filters F in 1..3, signals S in 1..3, domain points D in {2,3,5}; ranks 1-Dx1-D, 1-Dx2-D, 2-Dx1-D, 2-Dx2-D, one leading "
              "batch axis of size 2 (equal and broadcast 1-vs-2), two leading batch axes; domain symbolic strictly ascending array, symbolic "
              "scalar dx>0, concrete integer steps and concrete integer-typed non-uniform domain arrays (int64, int32, uint16, list of int), trapz True/False; integral(): rank 1-3, every axis, keepdims both",
        thorough="as quick with F,S up to 5, D up to 9, batch up to 3"),
    stubs=[],
    assumptions=["real arithmetic (no float rounding)", "shapes beyond the bound are not covered; contents are all reals at once"],
    outside=["floating-point rounding of the integration", "array sizes beyond the stated shape bound"],
)


def _dom(M, nd, kind):
    if kind == "array":
        d = M.real("d", (nd,), sample=lambda rng, shp: np.cumsum(rng.uniform(0.5, 2.0, size=shp)))
        for k in range(nd - 1):
            M.assume(d[k + 1] > d[k])
        return d, d
    if kind.startswith("intarr"):
        # concretely typed integer domain array (e.g. wavelengths from np.arange): non-uniform, odd steps, so half steps are not integers
        _, dt, vals = kind.split(":")
        vals = [int(v) for v in vals.split(",")][:nd]
        assert len(vals) == nd
        dom = list(vals) if dt == "list" else np.array(vals, dtype=dt)
        return dom, np.array(vals, dtype=object if M.symbolic else float)
    if kind.startswith("int"):
        # concretely typed integer steps (python int / numpy integer): dtype effects are invisible to a real-valued symbol
        v = int(kind.split(":")[1])
        dxc = np.int64(v) if kind.startswith("intnp") else v
        return dxc, np.array([v * k for k in range(nd)], dtype=object if M.symbolic else float)
    dx = M.real("dx", (), sample=lambda rng, shp: rng.uniform(0.25, 3.0))
    M.assume(dx > 0)
    return dx, np.array([dx * k for k in range(nd)], dtype=object if M.symbolic else float)


def _trap(f, s, d):
    """harness-side trapezoid formula for one filter row and one signal row on grid d"""
    tot = 0
    for k in range(len(d) - 1):
        tot = tot + (d[k + 1] - d[k]) * (s[k] * f[k] + s[k + 1] * f[k + 1]) / 2
    return tot


def _rect(f, s, dx):
    tot = 0
    for k in range(len(f)):
        tot = tot + f[k] * s[k] * dx
    return tot


def capture_case(M, fshape, sshape, nd, dom, trapz):
    from dreye.api.capture import calculate_capture
    F = M.real("f", tuple(fshape) + (nd,))
    Sg = M.real("s", tuple(sshape) + (nd,))
    domain, grid = _dom(M, nd, dom)
    out = calculate_capture(F, Sg, domain=domain, trapz=trapz)
    out = np.asarray(out)
    M.observe("out", out)
    goals = {}
    # expected shape and entries: (..., S, F) for 2-D+ inputs, plain broadcasting otherwise
    F_ = np.asarray(F); S_ = np.asarray(Sg)
    if F_.ndim > 1 and S_.ndim > 1:
        batch = np.broadcast_shapes(F_.shape[:-2], S_.shape[:-2])
        exp_shape = batch + (S_.shape[-2], F_.shape[-2])
        Fb = np.broadcast_to(F_, batch + F_.shape[-2:]); Sb = np.broadcast_to(S_, batch + S_.shape[-2:])
        spec = np.empty(exp_shape, dtype=object)
        for b in np.ndindex(*batch):
            for i in range(S_.shape[-2]):
                for j in range(F_.shape[-2]):
                    f, s = Fb[b + (j,)], Sb[b + (i,)]
                    spec[b + (i, j)] = _trap(f, s, grid) if (trapz or dom == "array") else _rect(f, s, domain)
    else:
        bshape = np.broadcast_shapes(F_.shape[:-1], S_.shape[:-1])
        exp_shape = bshape
        Fb = np.broadcast_to(F_, bshape + (nd,)); Sb = np.broadcast_to(S_, bshape + (nd,))
        spec = np.empty(bshape, dtype=object)
        for b in np.ndindex(*bshape):
            spec[b] = _trap(Fb[b], Sb[b], grid) if (trapz or dom == "array") else _rect(Fb[b], Sb[b], domain)
    goals["shape"] = (out.shape == tuple(exp_shape))
    if out.shape == tuple(exp_shape):
        goals["entry(i,j)=integral(signal_i*filter_j)"] = M.eq(out, spec if M.symbolic else spec.astype(float))
    if dom != "array" and trapz:
        # scalar dx  ==  explicit domain 0, dx, 2dx, ...
        out2 = calculate_capture(F, Sg, domain=np.asarray(grid), trapz=True)
        goals["scalar-dx==explicit-domain"] = M.eq(out, out2)
    return goals


def linear_case(M, nf, ns, nd, dom, which):
    from dreye.api.capture import calculate_capture
    F1 = M.real("f1", (nf, nd)); S1 = M.real("s1", (ns, nd))
    a = M.real("a", ()); b = M.real("b", ())
    domain, grid = _dom(M, nd, dom)
    if which == "signals":
        S2 = M.real("s2", (ns, nd))
        lhs = calculate_capture(F1, a * S1 + b * S2, domain=domain)
        rhs = a * calculate_capture(F1, S1, domain=domain) + b * calculate_capture(F1, S2, domain=domain)
    else:
        F2 = M.real("f2", (nf, nd))
        lhs = calculate_capture(a * F1 + b * F2, S1, domain=domain)
        rhs = a * calculate_capture(F1, S1, domain=domain) + b * calculate_capture(F2, S1, domain=domain)
    M.observe("lhs", lhs)
    return {f"linear-in-{which}": M.eq(lhs, rhs)}


def integral_case(M, shape, axis, dom, keepdims):
    from dreye.api.utils import integral
    arr = M.real("arr", tuple(shape))
    nd = shape[axis]
    domain, grid = _dom(M, nd, dom)
    out = np.asarray(integral(arr, domain, axis=axis, keepdims=keepdims))
    M.observe("out", out)
    a = np.moveaxis(np.asarray(arr), axis, -1)
    spec = np.empty(a.shape[:-1], dtype=object)
    ones = [1] * nd
    for idx in np.ndindex(*spec.shape):
        spec[idx] = _trap(ones, a[idx], grid)
    if keepdims:
        spec = np.expand_dims(spec, axis)
    goals = {"shape": out.shape == spec.shape}
    if out.shape == spec.shape:
        goals["integral=trapezoid-along-axis"] = M.eq(out, spec if M.symbolic else spec.astype(float))
    return goals


def estimator_case(M, nf, ns, nd, dom):
    from dreye.api.estimator import ReceptorEstimator
    F = M.real("f", (nf, nd)); Sg = M.real("s", (ns, nd))
    domain, grid = _dom(M, nd, dom)
    est = ReceptorEstimator(F, domain=domain)
    out = np.asarray(est.capture(Sg))
    M.observe("out", out)
    spec = np.empty((ns, nf), dtype=object)
    for i in range(ns):
        for j in range(nf):
            spec[i, j] = _trap(np.asarray(F)[j], np.asarray(Sg)[i], grid)
    goals = {"shape": out.shape == (ns, nf)}
    if out.shape == (ns, nf):
        goals["estimator.capture=integral"] = M.eq(out, spec if M.symbolic else spec.astype(float))
    return goals


def cases(tier, seed):
    C = []

    def add(name, body, **kw):
        C.append(dict(name=name, body=body, kwargs=kw))

    big = tier == "thorough"
    fs = [1, 2, 3] + ([5] if big else [])
    ds = [2, 3, 5] + ([9] if big else [])
    # 2-D x 2-D
    for nf, ns, nd in itertools.product(fs, fs, ds):
        if not big and (nf, ns, nd) not in {(1, 1, 2), (2, 3, 3), (3, 2, 5), (3, 3, 5), (1, 3, 3), (2, 1, 5)}:
            continue
        for dom, trapz in (("array", True), ("scalar", True), ("scalar", False)):
            add(f"2Dx2D F{nf} S{ns} D{nd} {dom} trapz={trapz}", "capture_case", fshape=(nf,), sshape=(ns,), nd=nd, dom=dom, trapz=trapz)
    for dom in ("int:1", "int:3", "int:2", "intnp:1", "intnp:5"):
        for trapz in (True, False):
            add(f"2Dx2D F2 S2 D3 {dom} trapz={trapz}", "capture_case", fshape=(2,), sshape=(2,), nd=3, dom=dom, trapz=trapz)
        add(f"1Dx1D D4 {dom}", "capture_case", fshape=(), sshape=(), nd=4, dom=dom, trapz=True)
        add(f"integral shape=(2, 3) axis=1 {dom}", "integral_case", shape=(2, 3), axis=1, dom=dom, keepdims=False)
    for dom in ("intarr:int64:300,301,304,309,310", "intarr:int32:0,3,4,9,14", "intarr:uint16:400,401,402,403,404", "intarr:list:1,2,5,6,11"):
        add(f"2Dx2D F2 S2 D5 {dom}", "capture_case", fshape=(2,), sshape=(2,), nd=5, dom=dom, trapz=True)
        add(f"1Dx1D D2 {dom}", "capture_case", fshape=(), sshape=(), nd=2, dom=dom, trapz=True)
        add(f"estimator F2 S2 D4 {dom}", "estimator_case", nf=2, ns=2, nd=4, dom=dom)
        add(f"integral shape=(2, 3) axis=1 {dom}", "integral_case", shape=(2, 3), axis=1, dom=dom, keepdims=False)
        add(f"linear signals {dom}", "linear_case", nf=2, ns=2, nd=3, dom=dom, which="signals")
    # lower ranks
    for dom, trapz in (("array", True), ("scalar", True), ("scalar", False)):
        add(f"1Dx1D D3 {dom} trapz={trapz}", "capture_case", fshape=(), sshape=(), nd=3, dom=dom, trapz=trapz)
        add(f"1Dx2D S2 D3 {dom} trapz={trapz}", "capture_case", fshape=(), sshape=(2,), nd=3, dom=dom, trapz=trapz)
        add(f"2Dx1D F2 D3 {dom} trapz={trapz}", "capture_case", fshape=(2,), sshape=(), nd=3, dom=dom, trapz=trapz)
        # batch axes
        nb = 3 if big else 2
        add(f"batch{nb} F2 S3 D3 {dom} trapz={trapz}", "capture_case", fshape=(nb, 2), sshape=(nb, 3), nd=3, dom=dom, trapz=trapz)
        add(f"batch1v{nb} F2 S2 D3 {dom} trapz={trapz}", "capture_case", fshape=(1, 2), sshape=(nb, 2), nd=3, dom=dom, trapz=trapz)
        add(f"batch{nb}v1 F3 S2 D2 {dom} trapz={trapz}", "capture_case", fshape=(nb, 3), sshape=(1, 2), nd=2, dom=dom, trapz=trapz)
        add(f"batch2x2 F2 S2 D3 {dom} trapz={trapz}", "capture_case", fshape=(2, 2, 2), sshape=(2, 2, 2), nd=3, dom=dom, trapz=trapz)
        add(f"batch-rank-mix F2 S2 D3 {dom} trapz={trapz}", "capture_case", fshape=(2,), sshape=(2, 2), nd=3, dom=dom, trapz=trapz)
    for dom in ("array", "scalar"):
        for which in ("signals", "filters"):
            add(f"linear {which} {dom}", "linear_case", nf=2, ns=2, nd=(5 if big else 3), dom=dom, which=which)
        add(f"estimator F2 S3 D4 {dom}", "estimator_case", nf=2, ns=3, nd=4, dom=dom)
        add(f"estimator F3 S1 D3 {dom}", "estimator_case", nf=3, ns=1, nd=3, dom=dom)
        for shape, axis in (((4,), 0), ((4,), -1), ((2, 3), 0), ((2, 3), 1), ((2, 3), -1), ((2, 3, 2), 1), ((2, 2, 3), -1), ((3, 2, 2), 0)):
            for keep in (False, True):
                add(f"integral shape={shape} axis={axis} {dom} keepdims={keep}", "integral_case", shape=shape, axis=axis, dom=dom, keepdims=keep)
    return C
