"""C17 hull projections return the nearest point, the boundary hit and the exact slice."""
import itertools

import numpy as np
import z3

from vf import harness, stubs, symnp
from vf.symnp import S, SB, lift

META = dict(
    functions=["dreye.api.project.proj_B_to_hull", "alpha_for_B_with_P", "B_with_P", "line_to_simplex", "yieldPpairs4proj2simplex", "proj_P_to_simplex", "proj_P_for_hull (hull branch)"],
    bounds=dict(quick="nearest point / boundary multiple: dimension 2-3, 3-4 symbolic facets (arbitrary half-space descriptions), 1-2 query points; plane slice: "
                      "all-pairs branch with symbolic non-negative clouds of 2-3 points in 2-3 dimensions (every returned point on the plane and on a segment between two "
                      "cloud points); hull-edges branch and the completeness half ('exactly the slice') in exact rational arithmetic on sampled clouds in 2-5 dimensions "
                      "(real qhull on the concrete cloud, z3 decides the mutual inclusion by linear arithmetic)",
                thorough="dimension 4 facets; more sampled clouds"),
    stubs=["quadprog.solve_qp: argmin 1/2 x'Gx - a'x s.t. C'x >= b (documented Goldfarb-Idnani form), factorized=True => first argument is R^-1",
           "scipy ConvexHull on concrete clouds: the real qhull (facets as exact rationals of its floats)"],
    assumptions=["real arithmetic", "facet rows describe the hull as {x : N x + o <= 0}", "boundary multiple: origin strictly inside (o < 0) and no direction exactly parallel to a facet (n.b != 0)"],
    outside=["qhull's facet computation itself", "completeness of the slice for symbolic clouds (decided only on sampled concrete clouds)"],
)


def patches(case):
    return harness.standard_patches() + stubs.qp_patches()


def _facets(M, nf, dim, origin_inside=False):
    N = M.real("N", (nf, dim), sample=lambda r, s: (lambda v: v / np.linalg.norm(v, axis=1, keepdims=True))(r.normal(size=s)))
    o = M.real("o", (nf,), sample=lambda r, s: -r.uniform(0.5, 2.0, size=s))
    if origin_inside:
        for v in np.asarray(o):
            M.assume(v < 0)
    eq = np.hstack([np.asarray(N), np.asarray(o)[:, None]])
    return (eq.view(symnp.SymArray) if M.symbolic else eq), np.asarray(N), np.asarray(o)


def nearest_case(M, dim, nf, npts):
    from dreye.api.project import proj_B_to_hull
    eq, N, o = _facets(M, nf, dim)
    B = M.real("B", (npts, dim), sample=lambda r, s: r.normal(scale=2.0, size=s))
    y = M.real("y", (npts, dim), sample=lambda r, s: r.normal(scale=0.2, size=s))  # competitor
    stubs.QP_CALLS.clear()
    out = np.asarray(proj_B_to_hull(B, eq))
    M.observe("out", out)
    goals = {"shape": out.shape == (npts, dim)}
    if not goals["shape"]:
        return goals

    def inside(x):
        return M.conj(*[M.le(sum((N[f, d] * x[d] for d in range(1, dim)), N[f, 0] * x[0]) + o[f], 0) for f in range(nf)])

    def dist2(x, b):
        return sum(((x[d] - b[d]) * (x[d] - b[d]) for d in range(1, dim)), (x[0] - b[0]) * (x[0] - b[0]))
    for i in range(npts):
        xi = list(out[i]); bi = list(np.asarray(B)[i]); yi = list(np.asarray(y)[i])
        if M.symbolic:
            goals[f"point{i}: the result lies in the hull"] = inside(xi)
            if len(stubs.QP_CALLS) == npts:
                rec = stubs.QP_CALLS[i]
                inst = z3.Implies(stubs.qp_feasible(rec, yi), stubs.qp_objective(rec, list(rec["x"])) <= stubs.qp_objective(rec, yi))
                goals[f"point{i}: no point of the hull is nearer to the query point"] = (M.implies(inside(yi), M.le(dist2(xi, bi), dist2(yi, bi))), [inst])
                inst_b = z3.Implies(stubs.qp_feasible(rec, bi), stubs.qp_objective(rec, list(rec["x"])) <= stubs.qp_objective(rec, bi))
                goals[f"point{i}: a query point inside the hull has distance <= 0 to its image (returned unchanged, by the sum-of-squares lemma)"] = (
                    M.implies(inside(bi), M.le(dist2(xi, bi), 0)), [inst_b])
            else:
                # no call of the solver on this path: the clauses must hold outright
                goals[f"point{i}: no point of the hull is nearer to the query point"] = M.implies(inside(yi), M.le(dist2(xi, bi), dist2(yi, bi)))
        else:
            xo = qp_oracle(N, o, np.array(bi, dtype=float))
            feas = bool(np.all(N @ np.array(xi, dtype=float) + o <= 1e-7))
            goals[f"point{i}: the result lies in the hull"] = feas
            if xo is not None:
                goals[f"point{i}: no point of the hull is nearer to the query point"] = bool(float(dist2(xi, bi)) <= float(dist2(list(xo), bi)) + 1e-6)
    return goals


def qp_oracle(N, o, b):
    from scipy.optimize import minimize
    N = np.asarray(N, dtype=float); o = np.asarray(o, dtype=float)
    from scipy.optimize import linprog
    r0 = linprog(np.zeros(N.shape[1]), A_ub=N, b_ub=-o, bounds=[(None, None)] * N.shape[1], method="highs")
    if r0.status != 0:
        return None
    r = minimize(lambda x: float(np.sum((x - b) ** 2)), r0.x, jac=lambda x: 2 * (x - b), constraints=[dict(type="ineq", fun=lambda x: -(N @ x + o), jac=lambda x: -N)],
                 method="SLSQP", options=dict(ftol=1e-14, maxiter=500))
    return r.x if r.success else None


def alpha_case(M, dim, nf, npts):
    from dreye.api.project import alpha_for_B_with_P, B_with_P
    eq, N, o = _facets(M, nf, dim, origin_inside=True)
    B = M.real("B", (npts, dim), sample=lambda r, s: r.normal(scale=2.0, size=s))
    den = [[sum((N[f, d] * np.asarray(B)[i, d] for d in range(1, dim)), N[f, 0] * np.asarray(B)[i, 0]) for f in range(nf)] for i in range(npts)]
    for row in den:
        for v in row:
            M.assume(v != 0)
    alpha = np.atleast_1d(np.asarray(alpha_for_B_with_P(B, eq)))
    pts = np.asarray(B_with_P(B, eq))
    goals = {"shape": alpha.shape == (npts,) and pts.shape == (npts, dim)}
    if not goals["shape"]:
        return goals
    for i in range(npts):
        a = alpha[i]
        is_nan = (not isinstance(a, S)) and bool(np.isnan(float(a)))
        pos = [M.le(0, den[i][f]) for f in range(nf)]  # n_f . b > 0 for some facet <=> the ray leaves through it (den != 0 assumed)
        if is_nan:
            # documented: nan when no positive multiple reaches the boundary, i.e. no facet is hit by the ray
            goals[f"point{i}: nan only if the ray hits no facet"] = M.conj(*[M.le(den[i][f], 0) for f in range(nf)])
            continue
        bi = list(np.asarray(B)[i])
        hit = [sum((N[f, d] * (a * bi[d]) for d in range(1, dim)), N[f, 0] * (a * bi[0])) + o[f] for f in range(nf)]
        goals[f"point{i}: the multiple is positive"] = M.le(0, a) if not M.symbolic else SB(lift(a) > 0)
        goals[f"point{i}: alpha*b satisfies every facet inequality"] = M.conj(*[M.le(h, 0) for h in hit])
        goals[f"point{i}: alpha*b lies on a facet (boundary)"] = (SB(z3.Or([lift(h) == 0 for h in hit])) if M.symbolic else bool(min(abs(float(h)) for h in hit) <= 1e-7))
        goals[f"point{i}: B_with_P = alpha * b"] = M.eq(pts[i], np.array([a * v for v in bi], dtype=object if M.symbolic else float))
    return goals


def line_case(M, dim):
    from dreye.api.project import line_to_simplex
    x1 = M.real("x1", (dim,), sample=lambda r, s: r.uniform(0.0, 1.0, size=s)); x2 = M.real("x2", (dim,), sample=lambda r, s: r.uniform(1.0, 3.0, size=s))
    c = M.real("c", (), sample=lambda r, s: r.uniform(dim * 1.0, dim * 1.0 + 0.5))
    for v in list(x1) + list(x2):
        M.assume(v >= 0)
    M.assume(c > 0)
    s1 = sum(list(x1)[1:], list(x1)[0]); s2 = sum(list(x2)[1:], list(x2)[0])
    M.assume(s1 != s2)
    p = np.asarray(line_to_simplex(x1, x2, c))
    t = (c - s1) / (s2 - s1)
    goals = {"the point sums to c": M.eq(sum(list(p)[1:], list(p)[0]), c),
             "the point is x1 + t (x2 - x1)": M.eq(p, np.array([x1[d] + t * (x2[d] - x1[d]) for d in range(dim)], dtype=object if M.symbolic else float)),
             "between the two points when c lies between their sums": M.implies(M.conj(M.le(s1, c), M.le(c, s2)), M.conj(M.le(0, t), M.le(t, 1)))}
    return goals


def slice_pairs_case(M, npts, dim, int_cloud=None):
    """all-pairs branch (not more points than dimensions): every returned point is on the plane and on a segment between a point below and a point above"""
    from dreye.api.project import proj_P_to_simplex
    if int_cloud is not None:
        # an integer-typed cloud (lattice points): exact constants in the symbolic / exact runs, a genuine int64 array in the run of the real code
        P = np.array(int_cloud, dtype=np.int64)
        if M.symbolic:
            P = symnp.const(P.astype(float))
    else:
        P = M.real("P", (npts, dim), sample=lambda r, s: r.uniform(0.0, 2.0, size=s))
    for v in np.asarray(P).ravel():
        M.assume(v >= 0)
    c = M.real("c", (), sample=lambda r, s: r.uniform(1.0, 2.0 * dim - 1.0))
    M.assume(c > 0)
    sums = [sum(list(np.asarray(P)[i])[1:], np.asarray(P)[i][0]) for i in range(npts)]
    try:
        out = np.asarray(proj_P_to_simplex(P, c))
    except AssertionError as e:
        # documented: c outside [smallest, largest] coordinate sum
        return {"rejected only when c is below the smallest or not below the largest coordinate sum": (
            SB(z3.Or(z3.And([lift(s_) > lift(c) for s_ in sums]), z3.And([lift(s_) <= lift(c) for s_ in sums]))) if M.symbolic
            else bool(all(s_ > c for s_ in sums) or all(s_ <= c for s_ in sums)))}
    goals = {"points have the cloud's dimension": out.ndim == 2 and out.shape[1] == dim}
    if not goals["points have the cloud's dimension"]:
        return goals
    # on this path the side of every cloud point is decided (the code forked on it); the k-th returned point belongs to the k-th (below, above) pair
    below = [i for i in range(npts) if bool(sums[i] <= c)]
    above = [i for i in range(npts) if i not in below]
    pairs = list(itertools.product(below, above))
    goals["one returned point per (below, above) pair of cloud points"] = out.shape[0] == len(pairs)
    Pa = np.asarray(P)
    for k in range(min(out.shape[0], len(pairs))):
        q = list(out[k]); i, j = pairs[k]
        goals[f"point{k}: lies on the plane sum = c"] = M.eq(sum(q[1:], q[0]), c)
        t = (c - sums[i]) / (sums[j] - sums[i])
        goals[f"point{k}: lies on the segment between a cloud point below and one above the plane (hence in the cloud's convex hull)"] = M.conj(
            M.le(0, t), M.le(t, 1), M.eq(np.array(q, dtype=object if M.symbolic else float), np.array([Pa[i, d] + t * (Pa[j, d] - Pa[i, d]) for d in range(dim)], dtype=object if M.symbolic else float)))
    return goals


def slice_exact_case(M, npts, dim):
    """concrete clouds (exact rationals): the returned points have exactly the slice as their convex hull.  Mutual inclusion is decided by z3 (linear
    arithmetic over the concrete points): every returned point is a convex combination of the brute-force crossing points of ALL point pairs and vice versa."""
    from dreye.api.project import proj_P_to_simplex
    P = M.real("P", (npts, dim), sample=lambda r, s: np.round(r.uniform(0.0, 2.0, size=s) * r.choice([0.0, 1.0, 1.0, 1.0], size=s), 2))
    c = M.real("c", (), sample=lambda r, s: r.uniform(0.6, 1.2) * dim)
    Pa = np.asarray(P)
    sums = [sum(list(Pa[i])[1:], Pa[i][0]) for i in range(npts)]
    M.assume(M.conj(*[M.le(0, v) for v in Pa.ravel()]))
    below = [i for i in range(npts) if bool(sums[i] <= c)]
    above = [i for i in range(npts) if not bool(sums[i] <= c)]
    if not below or not above:
        raise harness.SkipSample()
    out = np.asarray(proj_P_to_simplex(P, c))
    cross = []
    for i in below:
        for j in above:
            t = (c - sums[i]) / (sums[j] - sums[i])
            cross.append([Pa[i, d] + t * (Pa[j, d] - Pa[i, d]) for d in range(dim)])
    goals = {"points have the cloud's dimension": out.ndim == 2 and out.shape[1] == dim}
    if not goals["points have the cloud's dimension"]:
        return goals

    def in_conv(pt, pts, tag):
        if M.symbolic:
            lam = [z3.Real(f"{tag}_{k}") for k in range(len(pts))]
            return SB(z3.Exists(lam, z3.And([l >= 0 for l in lam] + [z3.Sum(lam) == 1] +
                                            [z3.Sum([lam[k] * lift(pts[k][d]) for k in range(len(pts))]) == lift(pt[d]) for d in range(dim)])))
        from scipy.optimize import linprog
        A = np.vstack([np.array(pts, dtype=float).T, np.ones(len(pts))]); b = np.append(np.array(pt, dtype=float), 1.0)
        # small tolerance band: minimise the max-norm residual
        n = len(pts)
        G = np.vstack([np.hstack([A, -np.ones((A.shape[0], 1))]), np.hstack([-A, -np.ones((A.shape[0], 1))])]); h = np.concatenate([b, -b])
        r = linprog(np.append(np.zeros(n), 1.0), A_ub=G, b_ub=h, bounds=[(0, None)] * n + [(0, None)], method="highs")
        return bool(r.status == 0 and r.fun <= 1e-7)
    goals["every returned point lies in the slice (convex hull of all crossing points)"] = M.conj(*[in_conv(list(out[k]), cross, f"la{k}") for k in range(out.shape[0])])
    goals["every point of the slice is covered by the returned points (their hull is exactly the slice)"] = M.conj(*[in_conv(cross[k], [list(o_) for o_ in out], f"lb{k}") for k in range(len(cross))])
    return goals


def cases(tier, seed):
    C = []
    big = tier == "thorough"

    def add(name, body, opts=None, **kw):
        o = dict(timeout_ms=60000, n_validate=2, max_paths=2000)
        o.update(opts or {})
        C.append(dict(name=name, body=body, kwargs=kw, opts=o))
    for dim, nf in ((2, 3), (2, 4), (3, 4)) + (((4, 5),) if big else ()):
        add(f"nearest point dim={dim} facets={nf} points=1", "nearest_case", dim=dim, nf=nf, npts=1)
        add(f"boundary multiple dim={dim} facets={nf} points=1", "alpha_case", dim=dim, nf=nf, npts=1)
    add("nearest point dim=2 facets=3 points=2", "nearest_case", dim=2, nf=3, npts=2)
    add("boundary multiple dim=2 facets=3 points=2", "alpha_case", dim=2, nf=3, npts=2)
    for dim in (2, 3, 4):
        add(f"line to plane dim={dim}", "line_case", dim=dim)
    for npts, dim in ((2, 2), (2, 3), (3, 3)):
        add(f"slice (all pairs) points={npts} dim={dim}", "slice_pairs_case", npts=npts, dim=dim)
    add("slice (all pairs) integer-typed cloud 3 points dim=3", "slice_pairs_case", npts=3, dim=3, int_cloud=[[0, 0, 1], [2, 1, 1], [0, 3, 0]], opts=dict(float_strict=True, n_validate=3))
    add("slice (all pairs) integer-typed cloud 2 points dim=2", "slice_pairs_case", npts=2, dim=2, int_cloud=[[1, 0], [1, 3]], opts=dict(float_strict=True, n_validate=3))
    for npts, dim in ((4, 2), (6, 3), (7, 4), (8, 5), (3, 4)):
        add(f"exact slice on sampled concrete clouds points={npts} dim={dim}", "slice_exact_case", npts=npts, dim=dim, opts=dict(skip_sym=True, n_validate=(8 if big else 4), max_paths=200))
    return C
