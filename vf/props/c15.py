"""C15 results are equivariant under a change of physical units."""
import fractions

import numpy as np
import z3

from vf import fitspec as fs
from vf import harness, stubs, symcp, symnp
from vf.props import c03, c06
from vf.symnp import S, SB, lift

R = fractions.Fraction

META = dict(
    functions=["dreye.api.convex.in_hull_from_A", "get_P_from_A", "in_hull", "range_of_solutions", "_range_of_solutions", "_spaced_solutions",
               "dreye.api.optimize.lsq_linear.lsq_linear (gaussian)", "dreye.api.utils.transform_values"],
    bounds=dict(quick="membership and fit twins: (2,3) and (3,3)/(2,2) systems, symbolic s > 0 and c > 0 (all positive unit changes at once), K vector, baseline vector; "
                      "range / spaced-solution twins: 2x3 catalogue entries of C06 with (s, c) from the grid {1e-4, 1e-2, 1/2, 3, 1e2, 1e4}^2 (products of two symbols with the "
                      "symbolic target would leave linear arithmetic)",
                thorough="adds (3,4) fit twins, matrix K for the 2x3 twins, the full (s,c) grid and the 3x4 catalogue entry for the range twins"),
    stubs=["Delaunay membership contract (scale-free by its statement; used by instances with the same convex weights)", "cvxpy -> symcp", "membership gate of C06 for the range twins"],
    assumptions=["real arithmetic", "s, c > 0", "K unchanged by the unit change, as the property states"],
    outside=["effects of solver tolerances at non-unit scale (inside the compiled solvers)", "the 1e-8 absolute band of the NNLS fallback membership test",
             "membership twins for 3 receptors x 4 sources (probed in the thorough tier: ~33 min for one clause, `unknown` for another in one of two runs; dropped)",
             "unbounded systems (ub = inf) and single-receptor systems (covered by C03)"],
)


def patches(case):
    if case["body"] in ("range_twin_case", "spaced_twin_case"):
        return fs.fit_patches() + c06._patches_gate()
    return fs.fit_patches() + stubs.qhull_patches(("dreye.api.convex",))


def _twin(M, A, lb, ub, base, B, s, c):
    return (np.asarray(A) * (c * s), np.asarray(lb) / s, np.asarray(ub) / s, None if base is None else np.asarray(base) * c, np.asarray(B) * c)


def _sc(M):
    s = M.real("s", (), sample=lambda r, sh: float(10.0 ** r.uniform(-2, 2)))
    c = M.real("c", (), sample=lambda r, sh: float(10.0 ** r.uniform(0, 2)))
    M.assume(s > 0); M.assume(c > 0)
    return s, c


def member_twin_case(M, m, n, kkind):
    from dreye.api.convex import in_hull_from_A
    A, K, base, lb, ub, lbl, ubl = fs.mk_system(M, m, n, kkind, "vec", "pos", "fin")
    for j in range(n):
        M.assume(ubl[j] > lbl[j])
    s, c = _sc(M)
    rows = 2
    B = M.real("B", (rows, m), sample=lambda r, sh: r.uniform(0.2, 4.0, size=sh))
    Aeff, beff = fs.effective_model(A, K, base, kkind)
    c03._fulldim_assumption(M, Aeff, lbl, ubl, m, n)
    stubs.qhull_reset(fulldim=lambda P: True)
    A2, lb2, ub2, base2, B2 = _twin(M, A, lb, ub, base, B, s, c)
    r1 = np.atleast_1d(np.asarray(in_hull_from_A(B, A, lb, ub, K=K, baseline=base)))
    r2 = np.atleast_1d(np.asarray(in_hull_from_A(B2, A2, lb2, ub2, K=K, baseline=base2)))
    goals = {"shapes": r1.shape == (rows,) and r2.shape == (rows,)}
    if not goals["shapes"]:
        return goals
    if not M.symbolic:
        for i in range(rows):
            margin = c03.lp_margin(Aeff, beff, list(np.asarray(B)[i]), lbl, ubl)
            goals[f"row{i}: same verdict in both unit systems"] = (bool(r1[i]) == bool(r2[i])) or margin < 1e-6
        return goals
    calls = list(stubs.QHULL_CALLS)
    goals["two membership queries"] = len(calls) == 2
    if len(calls) != 2:
        return goals
    P1, B1, f1 = np.asarray(calls[0]["P"]), np.asarray(calls[0]["B"]), calls[0]["flags"]
    P2, Bq2, f2 = np.asarray(calls[1]["P"]), np.asarray(calls[1]["B"]), calls[1]["flags"]
    goals["the cloud and the targets handed to the membership oracle scale by exactly c"] = P1.shape == P2.shape and M.conj(M.eq(P2, P1 * c), M.eq(Bq2, B1 * c))
    for i in range(rows):
        lam = [z3.Real(f"lam{i}_{k}") for k in range(P1.shape[0])]
        # contract instances with the SAME convex weights in both unit systems
        h = [z3.Implies(f1[i], stubs.conv_formula([S(l) for l in lam], P1, B1[i])), z3.Implies(stubs.conv_formula([S(l) for l in lam], P2, Bq2[i]), f2[i])]
        goals[f"row{i}: in gamut in the original units => in gamut in the new units"] = (M.implies(r1[i] if isinstance(r1[i], SB) else SB(lift(r1[i]) >= 0), r2[i] if isinstance(r2[i], SB) else SB(lift(r2[i]) >= 0)), h)
        lam2 = [z3.Real(f"mu{i}_{k}") for k in range(P1.shape[0])]
        h2 = [z3.Implies(f2[i], stubs.conv_formula([S(l) for l in lam2], P2, Bq2[i])), z3.Implies(stubs.conv_formula([S(l) for l in lam2], P1, B1[i]), f1[i])]
        goals[f"row{i}: in gamut in the new units => in gamut in the original units"] = (M.implies(r2[i] if isinstance(r2[i], SB) else SB(lift(r2[i]) >= 0), r1[i] if isinstance(r1[i], SB) else SB(lift(r1[i]) >= 0)), h2)
    return goals


def fit_twin_case(M, m, n, kkind):
    from dreye.api.optimize.lsq_linear import lsq_linear
    A, K, base, lb, ub, lbl, ubl = fs.mk_system(M, m, n, kkind, "vec", "pos", "fin")
    s, c = _sc(M)
    rows = 1
    B = M.real("B", (rows, m), sample=lambda r, sh: r.uniform(0.5, 4.0, size=sh))
    W = M.real("W", (m,), sample=lambda r, sh: r.uniform(0.5, 2.0, size=sh))
    for v in np.asarray(W):
        M.assume(v > 0)
    xc = M.real("xc", (rows, n), sample=lambda r, sh: r.uniform(0.3, 1.0, size=sh))
    A2, lb2, ub2, base2, B2 = _twin(M, A, lb, ub, base, B, s, c)
    symcp.reset()
    X2, Bp2 = lsq_linear(A2, B2, lb=lb2, ub=ub2, W=W, K=K, baseline=base2, return_pred=True)
    X2 = np.asarray(X2); Bp2 = np.asarray(Bp2)
    Aeff, beff = fs.effective_model(A, K, base, kkind)
    goals = {"shapes": X2.shape == (rows, n) and Bp2.shape == (rows, m)}
    if not goals["shapes"]:
        return goals
    w = list(W)
    for i in range(rows):
        xs = [X2[i][j] * s for j in range(n)]  # the twin's intensities expressed in the original units
        bi = list(np.asarray(B)[i])
        ci = [xc[i][j] * s for j in range(n)]  # the competitor is chosen in the new units (xc) and expressed in the original ones (no division by a symbol)
        goals[f"row{i}: predicted capture in the new units = c * model capture of (s * fitted intensities)"] = M.eq(
            Bp2[i], np.array([p * c for p in fs.predict(Aeff, beff, xs)], dtype=object if M.symbolic else float))
        f_x = fs.sq_error(Aeff, beff, w, bi, xs); f_c = fs.sq_error(Aeff, beff, w, bi, ci)
        if M.symbolic:
            goals[f"row{i}: s * (fit in the new units) respects the original bounds"] = fs.in_bounds(M, xs, lbl, ubl)
            solves = list(symcp.SOLVES)
            if len(solves) == rows:
                rec = solves[i]; var = rec["problem"].variables()[0]
                alt = list(xc[i])
                inst, _, cons_alt = symcp.optimality_instance(rec, fs.row_block_alt(rec, var, 0, n, alt))
                bridge = M.implies(fs.in_bounds(M, ci, lbl, ubl), SB(cons_alt))
                goals[f"row{i}: an in-bound competitor, divided by s, is feasible for the problem in the new units"] = bridge
                inst = z3.And(inst, bridge.t)  # (the bridge is proved as its own goal just above)
                # stated with the common factor c^2 (the twin's squared error is c^2 times the original one); the closed lemma below removes it
                goals[f"row{i}: s * (fit in the new units) is an optimum of the original problem (so unique optima scale by exactly 1/s, errors by c)"] = (
                    M.implies(fs.in_bounds(M, ci, lbl, ubl), M.le(c * c * f_x, c * c * f_c)), [inst])
                a_, b_, c_ = z3.Reals("sc_a sc_b sc_c")
                goals["lemma: c > 0 and c^2 a <= c^2 b imply a <= b"] = SB(z3.ForAll([a_, b_, c_], z3.Implies(z3.And(c_ > 0, c_ * c_ * a_ <= c_ * c_ * b_), a_ <= b_)))
        else:
            xo = fs.scipy_bvls(Aeff, beff, w, bi, lbl, ubl)
            f_o = fs.sq_error(Aeff, beff, w, bi, list(xo))
            goals[f"row{i}: s * (fit in the new units) is an optimum of the original problem (so unique optima scale by exactly 1/s, errors by c)"] = bool(
                np.sqrt(float(f_x)) <= np.sqrt(float(f_o)) + 2e-2 * max(1.0, float(np.max(w))))
    return goals


def _rng_setup(M, cat, int_bounds=None):
    A, m, n, lb, ub, t, base = c06._setup(M, cat, True, int_bounds=int_bounds)
    x0 = [lb[j] + t[j] * (ub[j] - lb[j]) for j in range(n)]
    Arows = np.asarray(A)
    b = np.array([fs._sum([Arows[i, j] * x0[j] for j in range(n)]) for i in range(m)], dtype=object if M.symbolic else float)
    btot = (b.view(symnp.SymArray) if M.symbolic else b) + np.asarray(base)
    return A, m, n, lb, ub, base, btot


def _k(M, v):
    return symnp.const(v) if M.symbolic else float(v)


def range_twin_case(M, cat, s, c, int_bounds=None):
    from dreye.api.convex import range_of_solutions
    A, m, n, lb, ub, base, btot = _rng_setup(M, cat, int_bounds)
    s_, c_ = _k(M, R(s)), _k(M, R(c))
    c06._Gate.answer = True
    mins, maxs = range_of_solutions(btot, A, lb, ub, baseline=base)
    mins2, maxs2 = range_of_solutions(btot * c_, np.asarray(A) * (c_ * s_), np.asarray(lb) / s_, np.asarray(ub) / s_, baseline=np.asarray(base) * c_)
    M.observe("mins2", mins2)
    return {"solution range in the new units = (solution range) / s": M.conj(M.eq(np.asarray(mins2) * s_, np.asarray(mins)), M.eq(np.asarray(maxs2) * s_, np.asarray(maxs)))}


def spaced_twin_case(M, cat, s, c, nsp):
    from dreye.api.convex import range_of_solutions
    A, m, n, lb, ub, base, btot = _rng_setup(M, cat)
    s_, c_ = _k(M, R(s)), _k(M, R(c))
    c06._Gate.answer = True
    _, _, Xs = range_of_solutions(btot, A, lb, ub, baseline=base, n=nsp, eps=1e-5)
    _, _, Xs2 = range_of_solutions(btot * c_, np.asarray(A) * (c_ * s_), np.asarray(lb) / s_, np.asarray(ub) / s_, baseline=np.asarray(base) * c_, n=nsp, eps=1e-5)
    Xs = np.asarray(Xs); Xs2 = np.asarray(Xs2)
    M.observe("Xs2", Xs2)
    return {"same number of spaced solutions": Xs.shape == Xs2.shape,
            "spaced solutions in the new units = (spaced solutions) / s": Xs.shape == Xs2.shape and M.eq(Xs2 * s_, Xs)}


def cases(tier, seed):
    C = []
    big = tier == "thorough"

    def add(name, body, opts=None, **kw):
        o = dict(timeout_ms=120000, n_validate=2, max_paths=5000)
        o.update(opts or {})
        C.append(dict(name=name, body=body, kwargs=kw, opts=o))
    for (m, n) in ((2, 2), (2, 3), (3, 3)) + (((3, 4),) if big else ()):
        for kkind in ("vec", "mat") if ((m, n) == (2, 3) and big) else ("vec",):  # matrix K: the offset min{c p} = c min{p} step needs minutes of nlsat
            if (m, n) != (3, 4):
                # 3x4 (16 box corners) was probed in the thorough tier and dropped: one clause took ~33 min of non-linear arithmetic and another came back
                # unknown in one of two otherwise identical runs (stated as outside the bound)
                add(f"membership twins {m}x{n} K={kkind}", "member_twin_case", m=m, n=n, kkind=kkind)
            add(f"fit twins {m}x{n} K={kkind}", "fit_twin_case", m=m, n=n, kkind=kkind)
    grid = ["1/10000", "1/100", "1/2", "3", "100", "10000"]
    pairs = [(s, c) for s in grid for c in grid]
    if not big:
        pairs = [("1/10000", "1/10000"), ("1/10000", "10000"), ("10000", "1/10000"), ("10000", "10000"), ("1/2", "3"), ("3", "1/100"), ("100", "1/2"), ("1/100", "100")]
    for (s, c) in pairs:
        add(f"range twins 2x3-rand1 s={s} c={c}", "range_twin_case", cat="2x3-rand1", s=s, c=c)
    for (s, c) in pairs[:4] + pairs[4:6]:
        add(f"spaced twins 2x3-rand2 s={s} c={c} n=3", "spaced_twin_case", cat="2x3-rand2", s=s, c=c, nsp=3)
    add("range twins 2x3-proportional s=1/100 c=1/100", "range_twin_case", cat="2x3-proportional", s="1/100", c="1/100")
    # the original system has integer-typed bounds (as users type them), the twin's are real after the division by s
    add("range twins 2x3-rand1 integer-typed bounds [0,0,0]..[8,8,8] s=8 c=4", "range_twin_case", cat="2x3-rand1", s="8", c="4", int_bounds=([0, 0, 0, 0], [8, 8, 8, 8]),
        opts=dict(float_strict=True, n_validate=3))
    add("range twins 2x3-rand2 integer-typed bounds [1,0,2]..[4,3,5] s=1/2 c=3", "range_twin_case", cat="2x3-rand2", s="1/2", c="3", int_bounds=([1, 0, 2, 0], [4, 3, 5, 3]),
        opts=dict(float_strict=True, n_validate=3))
    if big:
        add("range twins 3x4-rand1 s=1/100 c=100", "range_twin_case", cat="3x4-rand1", s="1/100", c="100", opts=dict(max_paths=20000))
    return C
