"""C18 gamut-size and divergence metrics: the clauses that are algebraic identities / inequalities (the geometric ground truth is not decidable here)."""
import importlib

import numpy as np
import z3

from vf import fitspec as fs
from vf import harness, stubs, symnp
from vf.props.c01 import _trap
from vf.symnp import S, SB, E, lift

META = dict(
    functions=["dreye.api.metrics.compute_mean_width (loop and vectorized)", "compute_gamut (normalisation, relative_to)", "compute_jensen_shannon_divergence",
               "compute_jensen_shannon_similarity", "ReceptorEstimator.compute_hull / compute_gamut (wiring of the cloud and of the reference)"],
    bounds=dict(quick="mean width: 3-4 symbolic points in 2-3 dimensions, 2 arbitrary symbolic directions (the generator is a stub), 1-D clouds of 3 points; gamut metric: "
                      "3 points x 3 receptors; divergence: vectors of length 2-3; estimator: 2 receptors x 2 sources x 3 domain points",
                thorough="same (3 and 4 directions were probed: the monotonicity clause is unknown to z3 already on constant inputs)"),
    stubs=["numpy default_rng(seed).standard_normal -> arbitrary non-zero direction vectors (seed recorded)", "scipy.stats.entropy -> uninterpreted function of its two vectors",
           "sklearn normalize -> rows / sum|x|", "metrics.compute_gamut -> recorder (estimator wiring case only)"],
    assumptions=["real arithmetic"],
    outside=["NOT DECIDABLE with this technique and not claimed: agreement of the Monte-Carlo mean width with the true mean width, rotation invariance (holds in distribution only), "
             "compute_volume (qhull volume + PCA fallback), 'never exceeds 1 relative to a superset' and '(0,1]' for the estimator metric (need the true geometry), "
             "Jensen-Shannon 'zero exactly for proportional inputs' and 'at most 1 bit' (properties of the logarithm)"],
)

REC = {}
ENT = {}


class _Rng:
    def __init__(self, seed=None):
        REC.setdefault("seeds", []).append(seed)

    def standard_normal(self, size=None):
        e = E()
        k = REC.setdefault("draws", 0); REC["draws"] = k + 1
        out = np.empty(size, dtype=object)
        for idx in np.ndindex(*size):
            out[idx] = S(z3.Real(f"dirn{k}_" + "_".join(map(str, idx))))
        # every direction is non-zero (probability-one event for a Gaussian draw)
        for j in range(size[1]):
            e.assume(z3.Sum([out[i, j].t * out[i, j].t for i in range(size[0])]) > 0)
        return out.view(symnp.SymArray)


def _entropy_stub(pk, qk=None, base=None, axis=0):
    pk = list(np.asarray(pk).ravel()); qk = list(np.asarray(qk).ravel())
    n = len(pk)
    if n not in ENT:
        ENT[n] = z3.Function(f"entropy{n}", *([z3.RealSort()] * (2 * n + 1)))
    return S(ENT[n](*[lift(v) for v in pk + qk]))


class _Stats:
    entropy = staticmethod(_entropy_stub)


def patches(case):
    mt = importlib.import_module("dreye.api.metrics")
    P = harness.standard_patches() + stubs.normalize_patches() + [(mt, "default_rng", _Rng), (mt, "stats", _Stats)]
    if case["body"] == "gamut_case":
        # compute_gamut's own logic (normalisation, zero-row filter, ratio to the reference) is checked with the size functional left uninterpreted:
        # the real compute_mean_width draws 1000 directions by default, which is out of reach symbolically and is covered by its own cases
        P += [(mt, "compute_mean_width", _size_uf("meanwidth")), (mt, "compute_volume", _size_uf("volume"))]
    if case["body"] == "hull_wiring_case":
        est = importlib.import_module("dreye.api.estimator")
        P.append((est, "compute_gamut", _record_gamut))
    return P


UF = {}


def _size_uf(name):
    def f(X, **kw):
        X = np.asarray(X)
        if not symnp._has_sym(X):
            raise symnp.Inconclusive("size functional stub reached with concrete data")
        k = (name, X.shape)
        if k not in UF:
            UF[k] = z3.Function(f"{name}_{'x'.join(map(str, X.shape))}", *([z3.RealSort()] * (X.size + 1)))
        REC.setdefault("size_calls", []).append(dict(name=name, kw=kw))
        return S(UF[k](*[lift(v) for v in X.ravel()]))
    return f


def _record_gamut(X, **kw):
    REC["gamut_call"] = dict(X=X, kw=kw)
    return 0.5


def width_case(M, npts, d, ndir, vectorized, which, scale=2.0):
    from dreye.api.metrics import compute_mean_width
    X = M.real("X", (npts, d), sample=lambda r, s: r.uniform(-1.0, 2.0, size=s))
    REC.clear()
    kw = dict(n=ndir, vectorized=vectorized, seed=11)
    w0 = compute_mean_width(X, **kw)
    goals = {}
    if M.symbolic:
        goals["the directions come from a generator built from the seed"] = REC.get("seeds") == [11]
    if which == "translation":
        t = M.real("t", (d,))
        REC.pop("draws", None)
        w1 = compute_mean_width(np.asarray(X) + np.asarray(t), **kw)
        goals["mean width is invariant to translation (same seed)"] = M.eq(w1, w0)
    elif which == "scale":
        s = symnp.const(scale) if M.symbolic else float(scale)  # concrete positive factors from a grid (max{s p} = s max{p} for a symbolic s needs non-linear reasoning over the max symbols)
        REC.pop("draws", None)
        w1 = compute_mean_width(np.asarray(X) * s, **kw)
        goals["mean width is homogeneous of degree one (same seed)"] = M.eq(w1, w0 * s)
    elif which == "single":
        goals["a cloud of identical points has mean width 0"] = M.eq(w0, 0)
        if npts == 1:
            REC.pop("draws", None)
            w1 = compute_mean_width(np.vstack([np.asarray(X), np.asarray(X)]).view(symnp.SymArray) if M.symbolic else np.vstack([X, X]), **kw)
            goals["repeating the point does not change the width"] = M.eq(w1, w0)
    elif which == "monotone":
        p = M.real("p", (1, d))
        REC.pop("draws", None)
        w1 = compute_mean_width(np.vstack([np.asarray(X), np.asarray(p)]).view(symnp.SymArray) if M.symbolic else np.vstack([X, p]), **kw)
        goals["mean width does not decrease when a point is added (same seed)"] = M.le(w0, w1)
        goals["mean width is non-negative"] = M.le(0, w0)
    return goals


def width1d_case(M, npts):
    from dreye.api.metrics import compute_mean_width
    x = M.real("x", (npts,))
    w = compute_mean_width(x)
    xs = list(np.asarray(x))
    if M.symbolic:
        mx = symnp._reduce(symnp.smax, np.array(xs, dtype=object), None); mn = symnp._reduce(symnp.smin, np.array(xs, dtype=object), None)
    else:
        mx, mn = max(xs), min(xs)
    w2 = compute_mean_width(np.asarray(x)[:, None])
    return {"1-D mean width = max - min": M.eq(w, mx - mn), "column vector gives the same": M.eq(w2, mx - mn)}


def gamut_case(M, which, scale=2.0):
    from dreye.api.metrics import compute_gamut
    X = M.real("X", (3, 3), sample=lambda r, s: r.uniform(0.1, 2.0, size=s))
    for v in np.asarray(X).ravel():
        M.assume(v > 0)
    REC.clear()
    g0 = compute_gamut(X, seed=5)
    if which == "scale":
        s = symnp.const(scale) if M.symbolic else float(scale)
        REC.clear()
        g1 = compute_gamut(np.asarray(X) * s, seed=5)
        return {"gamut metric is invariant to the intensity scale of its input": M.eq(g1, g0)}
    REC.clear()
    if M.symbolic:
        M.assume(g0 != 0)
    g2 = compute_gamut(X, relative_to=X, seed=5)
    return {"gamut metric equals 1 relative to itself": M.eq(g2, 1)}


def js_case(M, n, sa=2.0, sb=0.25):
    from dreye.api.metrics import compute_jensen_shannon_divergence as jsd, compute_jensen_shannon_similarity as jss
    P = M.real("P", (n,), sample=lambda r, s: r.uniform(0.1, 2.0, size=s)); Q = M.real("Q", (n,), sample=lambda r, s: r.uniform(0.1, 2.0, size=s))
    a = symnp.const(sa) if M.symbolic else float(sa); b = symnp.const(sb) if M.symbolic else float(sb)
    for v in list(P) + list(Q):
        M.assume(v > 0)
    d0 = jsd(P, Q)
    goals = {"divergence is symmetric": M.eq(jsd(Q, P), d0),
             "divergence is invariant to independent positive rescaling of either argument": M.eq(jsd(np.asarray(P) * a, np.asarray(Q) * b), d0),
             "similarity = 1 - divergence": M.eq(jss(P, Q), 1 - d0)}
    return goals


def js_negative_case(M):
    from dreye.api.metrics import compute_jensen_shannon_divergence as jsd
    P = M.real("P", (2,), sample=lambda r, s: np.array([0.5, -0.1])); Q = M.real("Q", (2,), sample=lambda r, s: r.uniform(0.1, 1.0, size=s))
    M.assume(P[1] < 0)
    try:
        jsd(P, Q)
        return {"negative entries are rejected": False}
    except ValueError:
        return {"negative entries are rejected": True}


def hull_wiring_case(M, relative):
    """ReceptorEstimator.compute_hull hands the gamut cloud and the capture of the delta signals, both in the requested (relative / absolute) capture"""
    from dreye.api.estimator import ReceptorEstimator
    F = M.real("F", (2, 3), sample=lambda r, s: r.uniform(0.1, 1.0, size=s)); Sx = M.real("Sx", (2, 3), sample=lambda r, s: r.uniform(0.1, 1.0, size=s))
    K = M.real("K", (2,), sample=lambda r, s: r.uniform(0.5, 2.0, size=s)); base = M.real("base", (2,), sample=lambda r, s: r.uniform(0.1, 0.5, size=s))
    ub = M.real("ub", (2,), sample=lambda r, s: r.uniform(1.0, 2.0, size=s))
    est = ReceptorEstimator(F, domain=1.0, K=K, baseline=base)
    est.register_system(Sx, lb=np.zeros(2), ub=ub)
    if not M.symbolic:
        v = est.compute_hull(relative=relative, seed=1)
        # float counterpart: the same metric computed from an independently built cloud and reference (same seed => same directions)
        from dreye.api.metrics import compute_gamut
        from vf.props.c03 import corners, corner_x
        grid = [0, 1, 2]
        A = np.array([[_trap(list(F[i]), list(Sx[k]), grid) for k in range(2)] for i in range(2)], dtype=float)
        Aeff, beff = fs.effective_model(A, K if relative else None, base if relative else None, "vec" if relative else "none")
        Pspec = np.array([fs.predict(Aeff, beff, corner_x(c, [0, 0], list(ub))) for c in corners(2)], dtype=float)
        eye = np.eye(3)
        ref = np.array([[(K[i] * (_trap(list(F[i]), list(eye[r_]), grid) + base[i])) if relative else _trap(list(F[i]), list(eye[r_]), grid) for i in range(2)] for r_ in range(3)], dtype=float)
        want = compute_gamut(Pspec, relative_to=ref, center_to_neutral=False, center=True, metric="width", seed=1)
        return {"a finite metric is returned": bool(np.isfinite(v)), "the metric is that of the gamut cloud relative to the delta-signal captures in the requested capture": M.eq(v, want)}
    REC.clear()
    est.compute_hull(relative=relative, seed=1)
    call = REC.get("gamut_call")
    goals = {"the gamut metric is called once": call is not None}
    if call is None:
        return goals
    grid = [0, 1, 2]
    A = [[_trap(list(np.asarray(F)[i]), list(np.asarray(Sx)[k]), grid) for k in range(2)] for i in range(2)]
    Aeff, beff = fs.effective_model(np.array(A, dtype=object), K if relative else None, base if relative else None, "vec" if relative else "none")
    from vf.props.c03 import corners, corner_x
    Pspec = np.array([fs.predict(Aeff, beff, corner_x(c, [0, 0], list(ub))) for c in corners(2)], dtype=object)
    goals["the cloud is the gamut vertex cloud in the requested capture"] = np.asarray(call["X"]).shape == Pspec.shape and M.eq(np.asarray(call["X"]), Pspec)
    # reference: captures of unit (delta) signals at every domain point, in the requested capture
    ref = np.asarray(call["kw"].get("relative_to"))
    eye = np.eye(3)
    spec_ref = np.empty((3, 2), dtype=object)
    for r_ in range(3):
        q = [_trap(list(np.asarray(F)[i]), list(eye[r_]), grid) for i in range(2)]
        spec_ref[r_] = [(K[i] * (q[i] + base[i])) if relative else q[i] for i in range(2)]
    goals["the reference is the capture of the delta signals in the requested capture"] = ref.shape == (3, 2) and M.eq(ref, spec_ref)
    return goals


def cases(tier, seed):
    C = []
    big = tier == "thorough"

    def add(name, body, **kw):
        C.append(dict(name=name, body=body, kwargs=kw, opts=dict(timeout_ms=60000, n_validate=2, max_paths=500)))
    for which in ("translation", "monotone"):
        for vectorized in (False, True):
            add(f"mean width 3 points 2-D 2 directions {which} vectorized={vectorized}", "width_case", npts=3, d=2, ndir=2, vectorized=vectorized, which=which)
        add(f"mean width 4 points 3-D 2 directions {which}", "width_case", npts=4, d=3, ndir=2, vectorized=False, which=which)
    for scale in (2.0, 0.125, 1000.0):
        add(f"mean width 3 points 2-D 2 directions scale x{scale}", "width_case", npts=3, d=2, ndir=2, vectorized=False, which="scale", scale=scale)
        add(f"mean width 4 points 3-D 2 directions scale x{scale} vectorized", "width_case", npts=4, d=3, ndir=2, vectorized=True, which="scale", scale=scale)
        add(f"gamut metric scale invariance x{scale}", "gamut_case", which="scale", scale=scale)
    for d in (2, 3):
        # a single sample with several features (degenerate cloud): width 0, and adding a point cannot decrease it
        add(f"mean width single point {d}-D", "width_case", npts=1, d=d, ndir=2, vectorized=False, which="single")
        add(f"mean width single point {d}-D monotone", "width_case", npts=1, d=d, ndir=2, vectorized=True, which="monotone")
    add("mean width 1-D", "width1d_case", npts=3)
    add("gamut metric relative to itself", "gamut_case", which="self")
    for n in (2, 3):
        for sa, sb in ((2.0, 0.25), (1000.0, 3.0)):
            add(f"Jensen-Shannon length {n} rescaled x{sa}, x{sb}", "js_case", n=n, sa=sa, sb=sb)
    add("Jensen-Shannon rejects negative entries", "js_negative_case")
    for relative in (True, False):
        add(f"estimator.compute_hull wiring relative={relative}", "hull_wiring_case", relative=relative)
    return C
