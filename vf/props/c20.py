"""C20 irradiance <-> photon-flux conversion is the physical law and its exact inverse."""
import fractions

import numpy as np

from vf import harness, symnp

META = dict(
    functions=["dreye.api.units.convert.irr2flux", "flux2irr", "optional_to", "has_units", "dreye.api.units.pint (unit registry, definitions of I and E, flux context) -- pint itself runs for real on symbolic magnitudes"],
    bounds=dict(quick="scalars, 1-D spectra of length <= 4, 2-D 2x3 with the wavelength on either axis, 3-D / 4-D arrays up to 2x3x2x2 with the wavelength on any axis (axis= variant); prefixes '', 'milli', 'micro', 'nano'; plain arrays and "
                      "pint quantities in I, microI, W/m^2/nm, uW/cm^2/nm (irradiance), E, microE (flux), wavelengths plain / nm / um",
                thorough="length up to 6, 3x4 arrays"),
    stubs=[],
    assumptions=["real arithmetic on the magnitudes; pint's own float constants (h, c, N_A, prefix factors) enter as the exact rationals of their float64 values, which is why "
                 "the physical law is asserted to a relative tolerance of 1e-12 rather than exactly"],
    outside=["rounding of the magnitudes themselves", "wavelengths outside [100, 2000] nm for the round trip"],
)

H = fractions.Fraction("6.62607015e-34"); C0 = fractions.Fraction(299792458); NA = fractions.Fraction("6.02214076e23")
PREFIX = {"": 0, None: 0, "milli": 3, "micro": 6, "nano": 9}


def _k(prefix):
    """photon flux [prefix mol / m^2 / s / nm] per irradiance [W / m^2 / nm] and nanometre of wavelength"""
    return fractions.Fraction(1, 10 ** 9) / (H * C0 * NA) * 10 ** PREFIX[prefix]


def _c(M, v):
    return symnp.const(v) if M.symbolic else float(v)


def _lam(M, shape):
    lam = M.real("lam", shape, sample=lambda r, s: r.uniform(300.0, 700.0, size=s) if s else r.uniform(300.0, 700.0))
    for v in (np.asarray(lam).ravel() if np.ndim(lam) else [lam]):
        M.assume(v >= 100); M.assume(v <= 2000)
    return lam


def forward_case(M, shape, prefix):
    from dreye.api.units.convert import irr2flux, flux2irr
    I = M.real("I", shape, sample=lambda r, s: r.uniform(-1.0, 5.0, size=s) if s else r.uniform(0.1, 5.0))
    lam = _lam(M, shape if shape else ())
    out = irr2flux(I, lam, prefix=prefix)
    M.observe("out", out)
    spec = np.asarray(I) * np.asarray(lam) * _c(M, _k(prefix))
    goals = {"irr2flux = I * lambda / (h c N_A) scaled by the prefix (rel 1e-12)": M.close(out, spec)}
    back = flux2irr(out, lam, flux_units=f"{prefix or ''}E")
    goals["flux2irr(irr2flux(I)) = I (rel 1e-12)"] = M.close(back, I)
    back2 = flux2irr(np.asarray(I), lam, prefix=prefix)
    ks = _k("")
    goals["flux2irr = E * (h c N_A) / lambda scaled by the prefix (rel 1e-12)"] = M.close(
        np.asarray(back2) * np.asarray(lam), np.asarray(I) * _c(M, fractions.Fraction(10 ** PREFIX[prefix]) / ks))
    return goals


def reuse_case(M, n, prefix, which):
    """the same wavelength buffer re-used after being refilled in place: the second conversion follows the law for the NEW wavelengths"""
    from dreye.api.units.convert import irr2flux, flux2irr
    f = irr2flux if which == "irr2flux" else flux2irr
    I = M.real("I", (n,))
    lam = _lam(M, (n,))
    shift = M.real("shift", (n,), sample=lambda r, s: r.uniform(20.0, 200.0, size=s))
    for v in np.asarray(shift):
        M.assume(v >= 1); M.assume(v <= 500)
    first = np.asarray(f(I, lam, prefix=prefix))
    lam_arr = lam if isinstance(lam, np.ndarray) else np.asarray(lam)
    new = [lam_arr[k] + np.asarray(shift)[k] for k in range(n)]
    for k in range(n):
        lam_arr[k] = new[k]  # the caller refills its own buffer
    M.snaps["lam"] = np.array(lam_arr, copy=True).view(np.ndarray)
    second = np.asarray(f(I, lam_arr, prefix=prefix))
    M.observe("second", second)
    k_ = _k(prefix) if which == "irr2flux" else fractions.Fraction(10 ** PREFIX[prefix]) / _k("")
    spec = np.asarray(I) * np.asarray(new, dtype=object if M.symbolic else float) * _c(M, k_) if which == "irr2flux" else np.asarray(I) * _c(M, k_) / np.asarray(new, dtype=object if M.symbolic else float)
    return {"shape": first.shape == (n,) and second.shape == (n,),
            f"{which} after the wavelength buffer was refilled in place follows the law for the new wavelengths (rel 1e-12)": second.shape == (n,) and M.close(second, spec)}


def history_case(M, n, first_prefix, prefix, which):
    """an earlier conversion in the same process with ANOTHER prefix (and the other direction in between) does not influence the conversion under test"""
    from dreye.api.units.convert import irr2flux, flux2irr
    f = irr2flux if which == "irr2flux" else flux2irr
    g = flux2irr if which == "irr2flux" else irr2flux
    I = M.real("I", (n,))
    lam = _lam(M, (n,))
    f(I, lam, prefix=first_prefix)
    g(I, lam, prefix=first_prefix)
    out = np.asarray(f(I, lam, prefix=prefix))
    M.observe("out", out)
    k_ = _k(prefix) if which == "irr2flux" else fractions.Fraction(10 ** PREFIX[prefix]) / _k("")
    spec = np.asarray(I) * np.asarray(lam) * _c(M, k_) if which == "irr2flux" else np.asarray(I) * _c(M, k_) / np.asarray(lam)
    back = np.asarray(g(out, lam, prefix=None, **({"flux_units": f"{prefix or ''}E"} if which == "irr2flux" else {"irr_units": f"{prefix or ''}I"})))
    return {f"{which}(prefix={prefix!r}) after a conversion with prefix={first_prefix!r} follows the law for its own prefix (rel 1e-12)": out.shape == (n,) and M.close(out, spec),
            "round trip after the earlier conversions returns the input (rel 1e-12)": back.shape == (n,) and M.close(back, I)}


def linear_case(M, n, prefix, which):
    from dreye.api.units.convert import irr2flux, flux2irr
    f = irr2flux if which == "irr2flux" else flux2irr
    I1 = M.real("I1", (n,)); I2 = M.real("I2", (n,)); a = M.real("a", ()); b = M.real("b", ())
    lam = _lam(M, (n,))
    lhs = f(a * I1 + b * I2, lam, prefix=prefix)
    rhs = a * f(I1, lam, prefix=prefix) + b * f(I2, lam, prefix=prefix)
    return {f"{which} is linear in the spectrum": M.eq(lhs, rhs)}


def axis_case(M, shape, axis, prefix, which):
    from dreye.api.units.convert import irr2flux, flux2irr
    f = irr2flux if which == "irr2flux" else flux2irr
    I = M.real("I", shape)
    lam = _lam(M, (shape[axis],))
    out = np.asarray(f(I, lam, prefix=prefix, axis=axis))
    bshape = [1] * len(shape); bshape[axis] = shape[axis]
    ref = np.asarray(f(I, np.asarray(lam).reshape(bshape), prefix=prefix))
    M.observe("out", out)
    k = _k(prefix) if which == "irr2flux" else fractions.Fraction(10 ** PREFIX[prefix]) / _k("")
    lamb = np.asarray(lam).reshape(bshape)
    spec = np.asarray(I) * lamb * _c(M, k) if which == "irr2flux" else np.asarray(I) * _c(M, k) / lamb
    return {"shape": out.shape == tuple(shape),
            f"{which}(axis=) equals the broadcast form": out.shape == tuple(shape) and M.eq(out, ref),
            f"{which}(axis=) is the physical law along the stated axis (rel 1e-12)": out.shape == tuple(shape) and M.close(out, spec)}


def units_case(M, n, which, in_unit, lam_unit, prefix):
    """plain arrays and unit-carrying quantities give the same numbers"""
    from dreye.api.units.convert import irr2flux, flux2irr
    from dreye.api.units.pint import ureg
    f = irr2flux if which == "irr2flux" else flux2irr
    I = M.real("I", (n,))
    lam = _lam(M, (n,))
    base_unit = "I" if which == "irr2flux" else "E"
    # magnitude of the same physical quantity expressed in `in_unit`
    factor = fractions.Fraction((1 * ureg(base_unit)).to(in_unit).magnitude).limit_denominator(10 ** 12)
    Iq = ureg.Quantity(np.asarray(I) * _c(M, factor), in_unit)
    lam_factor = {"plain": None, "nm": 1, "um": fractions.Fraction(1, 1000)}[lam_unit]
    lamq = lam if lam_factor is None else ureg.Quantity(np.asarray(lam) * _c(M, lam_factor), lam_unit)
    out_q = f(Iq, lamq, prefix=prefix)
    plain = f(I, lam, prefix=prefix)
    goals = {"quantity input returns a quantity": hasattr(out_q, "magnitude")}
    if hasattr(out_q, "magnitude"):
        goals[f"{which}: same numbers for plain arrays and quantities in {in_unit} / {lam_unit} (rel 1e-9)"] = M.close(out_q.magnitude, plain, rel=1e-9)
        exp_unit = (f"{prefix or ''}E" if which == "irr2flux" else f"{prefix or ''}spectralirradiance")
        goals["returned unit is the requested one"] = bool(out_q.units == ureg(exp_unit).units)
    out_n = f(Iq, lamq, prefix=prefix, return_units=False)
    goals["return_units=False gives the bare magnitudes"] = (not hasattr(out_n, "magnitude")) and M.close(out_n, plain, rel=1e-9)
    return goals


def cases(tier, seed):
    C = []
    big = tier == "thorough"

    def add(name, body, **kw):
        C.append(dict(name=name, body=body, kwargs=kw, opts=dict(n_validate=2)))
    for prefix in ("", None, "milli", "micro", "nano"):
        for shape in ((), (1,), (4,), (2, 3)) + (((6,), (3, 4)) if big else ()):
            add(f"forward/inverse shape={shape} prefix={prefix!r}", "forward_case", shape=shape, prefix=prefix)
        for which in ("irr2flux", "flux2irr"):
            add(f"linear {which} prefix={prefix!r}", "linear_case", n=3, prefix=prefix, which=which)
            shapes_axes = [((2, 3), 1), ((2, 3), 0), ((3, 2), -1), ((2, 2, 3), 1)]
            if prefix in ("", "micro"):
                # wavelength axis first / in the middle of 3-D and 4-D arrays, equal and unequal trailing axes (a permutation of the other axes is silent when they are equal)
                shapes_axes += [((3, 2, 2), 0), ((3, 1, 2), 0), ((3, 2, 1), -3), ((2, 3, 2), -2), ((2, 3, 2, 2), 1)]
            for shape, axis in shapes_axes:
                add(f"axis {which} shape={shape} axis={axis} prefix={prefix!r}", "axis_case", shape=shape, axis=axis, prefix=prefix, which=which)
    for which in ("irr2flux", "flux2irr"):
        for prefix in ("", "micro"):
            add(f"re-used wavelength buffer {which} prefix={prefix!r}", "reuse_case", n=3, prefix=prefix, which=which)
        for first_prefix, prefix in (("micro", ""), ("", "micro"), ("milli", "nano"), (None, "milli")):
            add(f"earlier conversion with prefix={first_prefix!r}, then {which} prefix={prefix!r}", "history_case", n=3, first_prefix=first_prefix, prefix=prefix, which=which)
    for prefix in ("", "micro"):
        for in_unit in ("I", "microI", "W/m^2/nm", "uW/cm^2/nm"):
            for lam_unit in ("plain", "nm", "um"):
                add(f"units irr2flux {in_unit} lam={lam_unit} prefix={prefix!r}", "units_case", n=3, which="irr2flux", in_unit=in_unit, lam_unit=lam_unit, prefix=prefix)
        for in_unit in ("E", "microE", "mol/m^2/s/nm", "umol/m^2/s/nm"):
            for lam_unit in ("plain", "um"):
                add(f"units flux2irr {in_unit} lam={lam_unit} prefix={prefix!r}", "units_case", n=3, which="flux2irr", in_unit=in_unit, lam_unit=lam_unit, prefix=prefix)
    return C
