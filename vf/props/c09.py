"""C09 variance minimisation keeps the fit quality and minimises the capture variance."""
import numpy as np
import z3

from vf import fitspec as fs
from vf import symcp, symnp
from vf.symnp import S, SB

META = dict(
    functions=["dreye.api.optimize.lsq_linear.lsq_linear_minimize (both stages)", "lsq_linear (first stage)", "_prepare_parameters", "_prepare_variables",
               "dreye.api.optimize.parallel.batched_iteration / diagonal_stack / concat", "dreye.api.utils.propagate_error", "l2norm", "predict_values",
               "ReceptorEstimator.minimize_variance (wiring)", "ReceptorEstimator.register_system (default Epsilon)", "uncertainty_capture"],
    bounds=dict(quick="(receptors x sources) (2,2),(2,3); 1-2 rows; batch 1 (and 2, 3 for the batching grid shared with C05); K none/vector/matrix; "
                      "Epsilon default/'heteroscedastic'/explicit; with and without an L1 request; weights per sample; everything symbolic",
                thorough="adds (3,4), 3 rows, batch up to 4"),
    stubs=["cvxpy -> symcp (contract stub; reshape order modelled as cvxpy does: Fortran by default)", "scipy.linalg.norm -> exact sqrt symbol (y>=0, y^2 = sum of squares)"],
    assumptions=["real arithmetic", "weights > 0, lb <= ub, l2_eps >= 0, l1_eps >= 0", "the back end returns a global optimum of each problem it is handed"],
    outside=["solver accuracy on the second-order-cone constraints"],
)


def patches(case):
    return fs.fit_patches()


def _sqrt(M, v):
    if M.symbolic:
        return (v if isinstance(v, S) else S(symnp.lift(v))).sqrt()
    return float(np.sqrt(max(float(v), 0.0)))


def eps_effective(Eps, A, K, kkind, Aeff):
    """variance model after propagation through K (K**2 element-wise), written out entry by entry"""
    m, n = np.asarray(A).shape
    if Eps is None:
        return [[Aeff[i][j] * Aeff[i][j] for j in range(n)] for i in range(m)]
    E_ = np.asarray(Eps)
    if K is None or kkind == "none":
        return [[E_[i, j] for j in range(n)] for i in range(m)]
    K = np.asarray(K)
    if kkind in ("scalar", "vec"):
        k = fs.vec(K, m)
        return [[k[i] * k[i] * E_[i, j] for j in range(n)] for i in range(m)]
    return [[fs._sum([K[i, l] * K[i, l] * E_[l, j] for l in range(m)]) for j in range(n)] for i in range(m)]


def variance(EpsE, x):
    m = len(EpsE); n = len(x)
    return fs._sum([fs._sum([EpsE[i][j] for i in range(m)]) * x[j] * x[j] for j in range(n)])


def minimize_case(M, m, n, rows, batch, kkind, bkind, epskind, l1kind, via="function", lbkind="pos", far=False, norm_kind=None):
    from dreye.api.optimize.lsq_linear import lsq_linear_minimize
    A, K, base, lb, ub, lbl, ubl = fs.mk_system(M, m, n, kkind, bkind, lbkind, "fin")
    def _b_sample(r, s):
        # concrete modes: targets near the capture of in-bound intensities (so that an L1 request around their total is satisfiable)
        v = M.values
        xt = v["lb"] + r.uniform(0.2, 0.8, size=(rows, n)) * (v["ub"] - v["lb"])
        if l1kind == "scalar":
            xt[:] = xt[0]  # one common total intensity request must be attainable for every row
        M.values["_xt"] = xt
        Ae, be = fs.effective_model(v["A"], v.get("K"), v.get("base"), kkind)
        noise = r.uniform(0.9, 1.3, size=(rows, m)) if l1kind == "none" else 1.0
        if far and l1kind == "none":
            # far out-of-gamut targets: the weighted and the unweighted best fits differ visibly (sampled inputs of the concrete modes only)
            noise = r.choice([0.35, 0.6, 1.8, 2.6], size=(rows, m))  # with an L1 request keep the generating intensities feasible
        return np.array([fs.predict(Ae, be, list(xt[i])) for i in range(rows)], dtype=float) * noise
    B = M.real("B", (rows, m), sample=_b_sample)
    W = M.real("W", (rows, m), sample=lambda r, s: r.uniform(0.5, 2.0, size=s))
    for v in np.asarray(W).ravel():
        M.assume(v > 0)
    l2_eps = M.real("l2eps", (), sample=lambda r, s: r.uniform(0.01, 0.05))
    M.assume(l2_eps >= 0)
    Eps = None
    if epskind == "explicit":
        Eps = M.real("Eps", (m, n), sample=lambda r, s: r.uniform(0.01, 0.2, size=s))
        for v in np.asarray(Eps).ravel():
            M.assume(v >= 0)
    L1 = None; l1_eps = 0.01
    if l1kind != "none":
        L1 = M.real("L1", (rows,) if l1kind == "vec" else (), sample=lambda r, s: (M.values["_xt"].sum(axis=1) if s else float(M.values["_xt"].sum(axis=1).mean())))
        for v in np.asarray(L1).ravel() if np.ndim(L1) else [L1]:
            M.assume(v >= 0)  # a requested total intensity is non-negative (with lb >= 0 the code declares it so)
        l1_eps = M.real("l1eps", (), sample=lambda r, s: r.uniform(0.3, 0.6))
        M.assume(l1_eps >= 0)
    normv = None
    if norm_kind is not None:
        # the allowed error is given by the caller (`norm`, one number for all samples or one per sample): the first stage is skipped
        normv = M.real("norm", () if norm_kind == "scalar" else (rows,), sample=lambda r, s: r.uniform(0.2, 0.6, size=s) if s else r.uniform(0.2, 0.6))
        for v in (np.asarray(normv).ravel() if np.ndim(normv) else [normv]):
            M.assume(v >= 0)
    two_stage = norm_kind is None
    xc = M.real("xc", (rows, n), sample=lambda r, s: r.uniform(0.3, 1.0, size=s))   # competitor for stage 2
    xc1 = M.real("xc1", (rows, n), sample=lambda r, s: r.uniform(0.3, 1.0, size=s))  # competitor for stage 1
    symcp.reset()
    Earg = {"default": None, "hetero": "heteroscedastic", "explicit": Eps}[epskind]
    if via == "function":
        X, Bp, Bvar = lsq_linear_minimize(A, B, Earg, lb=lb, ub=ub, W=W, K=K, baseline=base, l2_eps=l2_eps, L1=L1, l1_eps=l1_eps,
                                          batch_size=batch, return_pred=True, **({} if two_stage else dict(norm=normv)))
    else:
        from dreye.api.estimator import ReceptorEstimator
        kw = {}
        if K is not None:
            kw["K"] = K
        if base is not None:
            kw["baseline"] = base
        est = ReceptorEstimator(np.ones((m, 2)), **kw)
        est.A = A; est.lb = lb; est.ub = ub
        if via == "estimator_kw":
            # the variance model of THIS call is given as a keyword; the registered default ('heteroscedastic') must survive the call
            est.Epsilon = "heteroscedastic"
            est.register_targets(B, W)
            X, Bp, Bvar = est.minimize_variance(B, Epsilon=Eps, batch_size=batch, l2_eps=l2_eps, L1=L1, l1_eps=l1_eps)
            kept = isinstance(est.Epsilon, str) and est.Epsilon == "heteroscedastic"
        else:
            est.Epsilon = "heteroscedastic" if Eps is None else Eps
            est.register_targets(B, W)
            X, Bp, Bvar = est.minimize_variance(B, batch_size=batch, l2_eps=l2_eps, L1=L1, l1_eps=l1_eps)
            kept = True
    X = np.asarray(X); Bp = np.asarray(Bp); Bvar = np.asarray(Bvar)
    Aeff, beff = fs.effective_model(A, K, base, kkind)
    EpsE = eps_effective(Eps, A, K, kkind, Aeff)
    goals = {"shapes": X.shape == (rows, n) and Bp.shape == (rows, m) and Bvar.shape == (rows, m)}
    if via != "function":
        goals["a variance model passed for one call does not replace the registered default"] = kept
    if not goals["shapes"]:
        return goals
    bs = rows if batch == "full" else int(batch)
    n_solves = -(-rows // bs)
    solves = list(symcp.SOLVES)
    if M.symbolic:
        goals["number of solves = 2*ceil(n/batch) (ordinary fit, then variance minimisation)"] = len(solves) == (2 if two_stage else 1) * n_solves
        if rows % bs:
            M.tag("padded-last-batch")
        if bs > rows:
            M.tag("batch>n")
    ok_struct = M.symbolic and len(solves) == (2 if two_stage else 1) * n_solves
    feas_rows = {}
    for i in range(rows):
        w = fs.weights(W, i, m)
        xi = list(X[i]); ci = list(xc[i]); c1 = list(xc1[i]); bi = list(np.asarray(B)[i])
        goals[f"row{i}: prediction = K(A X + baseline)"] = M.eq(Bp[i], np.array(fs.predict(Aeff, beff, xi), dtype=object if M.symbolic else float))
        goals[f"row{i}: reported variance = variance model applied to X"] = M.eq(
            Bvar[i], np.array([fs._sum([EpsE[r][j] * xi[j] * xi[j] for j in range(n)]) for r in range(m)], dtype=object if M.symbolic else float))
        f_x = fs.sq_error(Aeff, beff, w, bi, xi)
        l1i = None if L1 is None else (L1[i] if np.ndim(L1) else L1)

        def l1_ok(x):
            if l1i is None:
                return True
            sx = fs._sum(list(x))  # lb >= 0 in the claimed configurations, so |x| = x
            return M.conj(M.le(sx, l1i + l1_eps), M.le(l1i - l1_eps, sx))
        if ok_struct:
            k, r = divmod(i, bs)
            rec1, rec2 = solves[k], solves[(n_solves if two_stage else 0) + k]
            v1 = rec1["problem"].variables()[0]; v2 = rec2["problem"].variables()[0]
            if two_stage:
                x1 = list(np.asarray(rec1["xstar"][v1]).reshape(-1)[r * n:(r + 1) * n])  # ordinary fit of this row
                f_1 = fs.sq_error(Aeff, beff, w, bi, x1)
                inst1, _, _ = symcp.optimality_instance(rec1, fs.row_block_alt(rec1, v1, r, n, c1))
                goals[f"row{i}: first stage is the ordinary bounded weighted least-squares fit"] = (
                    M.implies(fs.in_bounds(M, c1, lbl, ubl), M.le(f_1, fs.sq_error(Aeff, beff, w, bi, c1))), [inst1])
                e1 = _sqrt(M, f_1)
            else:
                e1 = normv[i] if np.ndim(normv) else normv  # the caller's error allowance for this sample
            blk = np.asarray(rec2["xstar"][v2]).reshape(-1)[r * n:(r + 1) * n]
            goals[f"row{i}: result row is its own block of the stacked solution"] = (len(blk) == n) and M.eq(X[i], blk)
            goals[f"row{i}: bounds respected"] = fs.in_bounds(M, xi, lbl, ubl)
            # fit quality: error <= best achievable error + l2_eps   (norms compared through their squares: both sides >= 0)
            goals[f"row{i}: capture error <= best achievable error + l2_eps"] = M.le(_sqrt(M, f_x), l2_eps + e1)
            goals[f"row{i}: total intensity within l1_eps of the request"] = l1_ok(xi)
            # optimality among all intensities meeting those conditions
            c_feas = M.conj(fs.in_bounds(M, ci, lbl, ubl), M.le(_sqrt(M, fs.sq_error(Aeff, beff, w, bi, ci)), l2_eps + e1), l1_ok(ci))
            inst2, _, cons_alt = symcp.optimality_instance(rec2, fs.row_block_alt(rec2, v2, r, n, ci))
            goals[f"row{i}: minimal summed variance among fits of that quality"] = (M.implies(c_feas, M.le(variance(EpsE, xi), variance(EpsE, ci))), [inst2])
            if l1i is None and two_stage:
                inst3, _, _ = symcp.optimality_instance(rec2, fs.row_block_alt(rec2, v2, r, n, x1))
                goals[f"row{i}: variance <= variance of the ordinary fit"] = (M.le(variance(EpsE, xi), variance(EpsE, x1)), [inst3])
            feas_rows.setdefault(k, []).append((r, ci, c_feas))
        elif not M.symbolic:
            rng_ = max(1e-9, float(np.max(np.array(ubl) - np.array(lbl))))
            goals[f"row{i}: bounds respected"] = bool(np.all(np.array(xi) >= np.array(lbl) - 0.01 * rng_) and np.all(np.array(xi) <= np.array(ubl) + 0.01 * rng_))
            xo = fs.scipy_bvls(Aeff, beff, w, bi, lbl, ubl)
            e_o = float(np.sqrt(fs.sq_error(Aeff, beff, w, bi, list(xo))))
            if not two_stage:
                e_o = float(normv[i] if np.ndim(normv) else normv)
            goals[f"row{i}: capture error <= best achievable error + l2_eps"] = bool(np.sqrt(float(f_x)) <= e_o + float(l2_eps) + 2e-2 * max(1.0, float(np.max(w))))
            if l1i is not None:
                goals[f"row{i}: total intensity within l1_eps of the request"] = bool(abs(sum(xi) - float(l1i)) <= float(l1_eps) + 0.02)
            c_feas = bool(fs.in_bounds(M, ci, lbl, ubl)) and (np.sqrt(float(fs.sq_error(Aeff, beff, w, bi, ci))) <= e_o + float(l2_eps) - 1e-3) and \
                (l1i is None or abs(sum(ci) - float(l1i)) <= float(l1_eps) - 1e-3)
            if c_feas:
                goals[f"row{i}: minimal summed variance among fits of that quality"] = bool(float(variance(EpsE, xi)) <= float(variance(EpsE, ci)) * (1 + 2e-2) + 1e-3)
            if l1i is None and two_stage:
                goals[f"row{i}: variance <= variance of the ordinary fit"] = bool(float(variance(EpsE, xi)) <= float(variance(EpsE, list(xo))) * (1 + 5e-2) + 1e-3)
                # a second competitor that is always available: the ordinary fit shrunk towards the lower bounds as far as the error budget allows
                xo_ = np.array(xo, dtype=float); lo_ = np.array(lbl, dtype=float)
                best_t = 1.0
                for t_ in np.linspace(1.0, 0.0, 41):
                    xt_ = lo_ + t_ * (xo_ - lo_)
                    if np.sqrt(float(fs.sq_error(Aeff, beff, w, bi, list(xt_)))) <= e_o + float(l2_eps) - 1e-3:
                        best_t = t_
                    else:
                        break
                xsh = list(lo_ + best_t * (xo_ - lo_))
                key = f"row{i}: minimal summed variance among fits of that quality"
                ok_sh = bool(float(variance(EpsE, xi)) <= float(variance(EpsE, xsh)) * (1 + 2e-2) + 1e-3)
                goals[key] = ok_sh and bool(goals.get(key, True))
    if ok_struct:
        # the stacked second-stage problem must be feasible whenever every row's documented problem is (checked without the stub's own
        # assumption); padded rows get the witness x = lb
        for k, lst in feas_rows.items():
            rec2 = solves[(n_solves if two_stage else 0) + k]
            v2 = rec2["problem"].variables()[0]
            alt = np.array(rec2["xstar"][v2]).copy().reshape(-1)
            for r in range(bs):
                alt[r * n:(r + 1) * n] = list(lbl)
            for r, ci, _ in lst:
                alt[r * n:(r + 1) * n] = ci
            _, cons_alt = rec2["problem"].at({v2: alt.reshape(np.asarray(rec2["xstar"][v2]).shape)}, rec2["params"])
            goals[f"batch{k}: second-stage problem feasible whenever each row's problem is"] = (
                M.implies(M.conj(*[c for _, _, c in lst]), SB(cons_alt)), [], dict(pc_upto=rec2["pc_before"]))
    return goals


def cases(tier, seed):
    C = []
    big = tier == "thorough"

    def add(name, **kw):
        C.append(dict(name=name, body="minimize_case", kwargs=kw, opts=dict(timeout_ms=60000, n_validate=1)))
    for kkind in ("none", "vec", "mat"):
        for epskind in ("default", "hetero", "explicit"):
            for l1kind in ("none", "scalar"):
                add(f"2x3 K={kkind} Eps={epskind} L1={l1kind} rows=1", m=2, n=3, rows=1, batch=1, kkind=kkind, bkind="vec", epskind=epskind, l1kind=l1kind)
    add("2x2 K=vec Eps=explicit L1=vec rows=2", m=2, n=2, rows=2, batch=1, kkind="vec", bkind="vec", epskind="explicit", l1kind="vec")
    add("2x2 K=scalar base=scalar Eps=explicit rows=2", m=2, n=2, rows=2, batch=1, kkind="scalar", bkind="scalar", epskind="explicit", l1kind="none")
    add("2x2 K=vec Eps=explicit rows=2 (sampled targets far outside the gamut)", m=2, n=2, rows=2, batch=1, kkind="vec", bkind="vec", epskind="explicit", l1kind="none", far=True)
    add("3x3 K=none Eps=hetero rows=1 (sampled targets far outside the gamut)", m=3, n=3, rows=1, batch=1, kkind="none", bkind="vec", epskind="hetero", l1kind="none", far=True)
    C[-1]["opts"]["n_validate"] = 3; C[-2]["opts"]["n_validate"] = 3
    # one stacked problem for two samples (the per-sample error constraints are rows of a reshaped residual); the batch grid itself is C05's subject
    add("2x2 K=vec Eps=explicit rows=2 batch=2", m=2, n=2, rows=2, batch=2, kkind="vec", bkind="vec", epskind="explicit", l1kind="none")
    add("estimator.minimize_variance 2x3 K=vec Eps=explicit", m=2, n=3, rows=1, batch=1, kkind="vec", bkind="vec", epskind="explicit", l1kind="none", via="estimator")
    add("estimator.minimize_variance(Epsilon=...) 2x3 K=vec", m=2, n=3, rows=1, batch=1, kkind="vec", bkind="vec", epskind="explicit", l1kind="none", via="estimator_kw")
    for nk in ("scalar", "vec"):
        add(f"2x3 K=vec Eps=explicit rows=2, error allowance given by the caller (norm: {nk})", m=2, n=3, rows=2, batch=1, kkind="vec", bkind="vec", epskind="explicit", l1kind="none", norm_kind=nk)
    add("2x2 K=vec Eps=explicit rows=2 batch=2, error allowance given by the caller (norm: scalar)", m=2, n=2, rows=2, batch=2, kkind="vec", bkind="vec", epskind="explicit", l1kind="none", norm_kind="scalar")
    add("estimator.minimize_variance 2x3 K=mat Eps=default", m=2, n=3, rows=1, batch=1, kkind="mat", bkind="vec", epskind="default", l1kind="none", via="estimator")
    if big:
        add("3x4 K=vec Eps=explicit L1=none rows=2", m=3, n=4, rows=2, batch=1, kkind="vec", bkind="vec", epskind="explicit", l1kind="none")
        add("3x4 K=mat Eps=default L1=scalar rows=1", m=3, n=4, rows=1, batch=1, kkind="mat", bkind="vec", epskind="default", l1kind="scalar")
    return C
