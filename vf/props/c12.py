"""C12 gamut-corrective scalings keep hue and ratios and land in the chromatic gamut."""
import importlib

import numpy as np
import z3

from vf import fitspec as fs
from vf import harness, stubs, symcp, symnp
from vf.symnp import S, SB, lift


def hull_patches():
    est = importlib.import_module("dreye.api.estimator")
    return [(est, "ConvexHull", stubs.ConvexHullStub)]


def hull_reset(nfacets=None):
    stubs.QHULL_POLICY["nfacets"] = nfacets or (lambda d: d + 1)
