"""C12 gamut-corrective scalings keep hue and ratios and land in the chromatic gamut."""
import importlib

import numpy as np
import z3

from vf import fitspec as fs
from vf import harness, stubs, symcp, symnp
from vf.symnp import S, SB, lift


def hull_patches():
    est = importlib.import_module("dreye.api.estimator")
    return [(est, "ConvexHull", stubs.ConvexHullStub)]


def hull_reset(nfacets=None):
    stubs.QHULL_POLICY["nfacets"] = nfacets or (lambda d: d + 1)


META = dict(
    functions=["ReceptorEstimator.hull_l1_scaling / gamut_l1_scaling", "ReceptorEstimator.hull_dist_scaling / gamut_dist_scaling", "dreye.api.project.alpha_for_B_with_P",
               "dreye.api.barycentric.barycentric_dim_reduction", "cartesian_to_barycentric", "ReceptorEstimator.in_hull(normalized=True)", "_get_P_from_A",
               "dreye.api.utils.apply_linear_transform"],
    bounds=dict(quick="intensity (L1) scaling only: fully symbolic systems (2x2, 3x3, 2x3), K none/vector/matrix, baseline vector, relative and absolute capture, 2-3 target rows",
                thorough="same"),
    stubs=["sklearn normalize -> rows / sum|x|", "scipy ConvexHull on a concrete cloud -> the real qhull (facets as exact rationals of its floats)", "membership (Delaunay) contract stub"],
    assumptions=["real arithmetic", "largest baseline-subtracted target > 0 for the L1 scaling", "neutral point inside the chromatic gamut (the code asserts it)"],
    outside=["the chromatic (distance) scaling half of the property: not decided by this check (see the note in cases())", "qhull's facet computation"],
)


def patches(case):
    return fs.fit_patches() + stubs.qhull_patches(("dreye.api.convex",)) + stubs.normalize_patches() + hull_patches()


def _est(M, A, K, base, lb, ub, m):
    from dreye.api.estimator import ReceptorEstimator
    kw = {}
    if K is not None:
        kw["K"] = K
    if base is not None:
        kw["baseline"] = base
    est = ReceptorEstimator(np.ones((m, 2)), **kw)
    est.A = A; est.Epsilon = "heteroscedastic"; est.lb = lb; est.ub = ub
    return est


def l1_case(M, m, n, rows, kkind, relative):
    A, K, base, lb, ub, lbl, ubl = fs.mk_system(M, m, n, kkind, "vec", "zero", "fin")
    B = M.real("B", (rows, m), sample=lambda r, s: r.uniform(0.5, 4.0, size=s))
    est = _est(M, A, K, base, lb, ub, m)
    snap = np.array(B, dtype=object if M.symbolic else float, copy=True)
    Aeff, beff = fs.effective_model(A, K if relative else None, base if relative else None, kkind if relative else "none")
    D = np.array([[np.asarray(B)[i, j] - beff[j] for j in range(m)] for i in range(rows)], dtype=object if M.symbolic else float)
    if M.symbolic:
        bmax = symnp._reduce(symnp.smax, D, None)
        amax = symnp._reduce(symnp.smin, np.array([symnp._reduce(symnp.smax, np.array([Aeff[i][k] * ubl[k] for k in range(n)], dtype=object), None) for i in range(m)], dtype=object), None)
        M.assume(bmax > 0); M.assume(amax > 0)
    else:
        bmax = float(np.max(D)); amax = float(min(max(float(Aeff[i][k]) * float(ubl[k]) for k in range(n)) for i in range(m)))
        M.assume(bmax > 0); M.assume(amax > 0)
    out = np.asarray(est.gamut_l1_scaling(B, relative=relative))
    M.observe("out", out)
    goals = {"shape": out.shape == (rows, m), "caller array not modified": M.eq(np.asarray(B), snap)}
    if not goals["shape"]:
        return goals
    alpha = amax / bmax
    light = np.array([[out[i, j] - beff[j] for j in range(m)] for i in range(rows)], dtype=object if M.symbolic else float)
    goals["the light-induced part of every target is multiplied by one common factor amax/bmax"] = M.eq(light, D * alpha)
    goals["the common factor is positive"] = SB(symnp.lift(alpha) > 0) if M.symbolic else bool(alpha > 0)
    if M.symbolic:
        goals["the largest light-induced capture becomes the smallest single-source maximum"] = M.eq(symnp._reduce(symnp.smax, light, None), amax)
        # ratios unchanged: cross-multiplied form  light_ij * D_kl == light_kl * D_ij
        cross = []
        for (i, j), (k, l) in [((0, 0), (rows - 1, m - 1)), ((0, m - 1), (rows - 1, 0))]:
            cross.append(M.eq(light[i, j] * D[k, l], light[k, l] * D[i, j]))
        goals["capture ratios between light-induced parts are unchanged"] = M.conj(*cross)
    else:
        goals["the largest light-induced capture becomes the smallest single-source maximum"] = M.eq(float(np.max(light)), amax)
    return goals


CONCRETE = {
    "tri": dict(F=[[1, 2, 1, 0.5], [0.5, 1, 3, 1], [2, 0.5, 1, 1]], S=[[1, 0.5, 0.25, 0.1], [0.25, 1, 2, 0.3], [0.2, 0.3, 0.5, 2]], K=[1.0, 0.5, 2.0], base=[0.1, 0.2, 0.1]),
    "di": dict(F=[[1, 2, 1, 0.5], [0.5, 1, 3, 1]], S=[[1, 0.5, 0.25, 0.1], [0.25, 1, 2, 0.3], [0.2, 0.3, 0.5, 2]], K=[0.6, 0.5], base=[0.1, 0.2]),
    "tetra": dict(F=[[1, 2, 1, 0.5, 0.2], [0.5, 1, 3, 1, 0.3], [2, 0.5, 1, 1, 1], [0.1, 0.4, 1, 2, 3]],
                  S=[[1, 0.5, 0.25, 0.1, 0.1], [0.25, 1, 2, 0.3, 0.2], [0.2, 0.3, 0.5, 2, 1], [0.1, 0.1, 0.3, 1, 3]], K=[1.0, 0.5, 2.0, 1.0], base=[0.1, 0.2, 0.1, 0.1]),
}


def dist_case(M, system, rows, neutral_kind, zero_row, relative=True, zero_entry=False, warmup=False):
    """chromatic scaling on a concrete system; symbolic (or sampled) non-negative targets"""
    from dreye.api.estimator import ReceptorEstimator
    from dreye.api.barycentric import barycentric_dim_reduction
    cfg = CONCRETE[system]
    cF = np.array(cfg["F"], dtype=float); cS = np.array(cfg["S"], dtype=float)
    m = cF.shape[0]
    est = ReceptorEstimator(symnp.const(cF) if M.symbolic else cF, domain=1.0, K=np.array(cfg["K"]), baseline=np.array(cfg["base"]))
    est.register_system(symnp.const(cS) if M.symbolic else cS, lb=np.zeros(cS.shape[0]), ub=np.ones(cS.shape[0]))
    Bq = M.real("B", (rows, m), sample=lambda r, s: r.uniform(0.2, 3.0, size=s) * r.choice([1.0, 0.05, 0.02], size=s))
    if zero_entry:
        # a pure-receptor target: one capture exactly zero (its chromaticity is a corner of the simplex, outside every real system's chromatic gamut)
        Bq = np.array(Bq, dtype=object if M.symbolic else float)
        Bq[0, -1] = S(z3.RealVal(0)) if M.symbolic else 0.0
        Bq = Bq.view(symnp.SymArray) if M.symbolic else Bq
    for idx in np.ndindex(*np.asarray(Bq).shape):
        if not (zero_entry and idx == (0, np.asarray(Bq).shape[1] - 1)):
            M.assume(np.asarray(Bq)[idx] > 0)
    parts = [np.asarray(Bq)]
    if zero_row:
        parts.append(symnp.const(np.zeros((1, m))) if M.symbolic else np.zeros((1, m)))
    B = np.vstack(parts)
    B = B.view(symnp.SymArray) if M.symbolic else B
    neutral = None
    if neutral_kind == "given":
        neutral = np.array([1.0, 1.2, 0.9, 1.1][:m])
    snap = np.array(B, dtype=object if M.symbolic else float, copy=True)
    if warmup:
        # an earlier query on the same estimator about a different neutral point must not influence this one
        other = np.array([0.8, 1.3, 1.1, 0.9][:m])
        stubs.qhull_reset(); hull_reset()
        est.gamut_dist_scaling(np.array(snap, dtype=object).view(symnp.SymArray) if M.symbolic else np.array(snap, dtype=float), neutral_point=(symnp.const(other) if M.symbolic else other), relative=relative)
    stubs.qhull_reset(); hull_reset()
    out = np.asarray(est.gamut_dist_scaling(B, neutral_point=(None if neutral is None else (symnp.const(neutral) if M.symbolic else neutral)), relative=relative))
    M.observe("out", out)
    nrows = B.shape[0]
    goals = {"shape": out.shape == (nrows, m), "caller array not modified": M.eq(np.asarray(B), snap)}
    if not goals["shape"]:
        return goals
    neu = np.ones(m) if neutral is None else neutral
    neu2 = (symnp.const(neu[None, :]) if M.symbolic else neu[None, :])
    center = np.asarray(barycentric_dim_reduction(neu2))[0]
    P = np.asarray(est._get_P_from_A(relative=relative, bounded=True, remove_zero=True))
    chroP = np.asarray(barycentric_dim_reduction(P.view(symnp.SymArray) if M.symbolic else P))
    goals["all-zero rows stay zero"] = M.eq(out[nrows - 1], np.zeros(m)) if zero_row else True
    live = list(range(rows))
    Bl = np.asarray(B)[live]; Ol = out[live]
    goals["every target keeps its total capture"] = M.eq(np.array([sum(list(Ol[i])[1:], Ol[i][0]) for i in live], dtype=object if M.symbolic else float),
                                                        np.array([sum(list(Bl[i])[1:], Bl[i][0]) for i in live], dtype=object if M.symbolic else float))
    cb = np.asarray(barycentric_dim_reduction(Bl.view(symnp.SymArray) if M.symbolic else Bl)) - center
    co = np.asarray(barycentric_dim_reduction(Ol.view(symnp.SymArray) if M.symbolic else Ol)) - center
    # one common contraction factor: co_i = alpha * cb_i  (cross-multiplied with the first non-trivial component)
    cross = []
    for i in live:
        for d in range(cb.shape[1]):
            cross.append(M.eq(co[i, d] * cb[0, 0], co[0, 0] * cb[i, d]))
    goals["hue direction from the neutral point kept; all saturations contracted by one common factor"] = M.conj(*cross)
    if m == 2:
        # dichromat: chromaticity = second-receptor share; the chromatic gamut is the interval spanned by the vertex shares
        share = lambda v: v[1] / (v[0] + v[1])
        sh_P = [share(list(P[k])) for k in range(P.shape[0])]
        if M.symbolic:
            lo = symnp._reduce(symnp.smin, np.array(sh_P, dtype=object), None); hi = symnp._reduce(symnp.smax, np.array(sh_P, dtype=object), None)
        else:
            lo, hi = min(sh_P), max(sh_P)
        inside_before = M.conj(*[M.conj(M.le(lo, share(list(Bl[i]))), M.le(share(list(Bl[i])), hi)) for i in live])
        goals["every scaled chromaticity lies in the chromatic gamut"] = M.conj(*[M.conj(M.le(lo, share(list(Ol[i]))), M.le(share(list(Ol[i])), hi)) for i in live])
        if not zero_row:
            goals["targets already inside the chromatic gamut are returned unchanged"] = M.implies(inside_before, M.eq(Ol, Bl))
    return goals


def cases(tier, seed):
    C = []
    big = tier == "thorough"

    def add(name, body, opts=None, **kw):
        o = dict(timeout_ms=60000, n_validate=2, max_paths=2000)
        o.update(opts or {})
        C.append(dict(name=name, body=body, kwargs=kw, opts=o))
    for (m, n) in ((2, 2), (3, 3), (2, 3)):
        for kkind in ("none", "vec", "mat"):
            for relative in (True, False):
                add(f"L1 scaling {m}x{n} K={kkind} relative={relative}", "l1_case", m=m, n=n, rows=(3 if m == 2 else 2), kkind=kkind, relative=relative)
    # dichromats: the chromatic space is one-dimensional and free of square roots (explicit min/max branch of the code): explored symbolically
    for neutral_kind in ("default", "given"):
        for zero_row in (False, True):
            add(f"distance scaling dichromat neutral={neutral_kind} zero-row={zero_row}", "dist_case", system="di", rows=2, neutral_kind=neutral_kind, zero_row=zero_row,
                opts=dict(n_validate=2, max_paths=400, timeout_ms=30000))
    for neutral_kind in ("default", "given"):
        add(f"distance scaling dichromat neutral={neutral_kind} pure-receptor target (exact zero capture)", "dist_case", system="di", rows=2, neutral_kind=neutral_kind, zero_row=False,
            zero_entry=True, opts=dict(n_validate=2, max_paths=400, timeout_ms=30000))
    for neutral_kind in ("default", "given"):
        add(f"distance scaling dichromat neutral={neutral_kind} after an earlier query about another neutral point", "dist_case", system="di", rows=2, neutral_kind=neutral_kind,
            zero_row=False, warmup=True, opts=dict(n_validate=2, max_paths=600, timeout_ms=30000))
    # Chromatic (distance) scaling for tri-/tetrachromats is NOT decided: `dist_case` above runs the real hull_dist_scaling in exact algebraic arithmetic, but every comparison
    # on the way (zero rows, `alphas <= 0`, nanmin) involves sums of sqrt-constants and divisions by chromaticity sums; z3 neither folds them nor
    # honours its timeout on them (probed: minutes per comparison, see DESIGN.md).  Only the caller-array clause of that function is exercised (C14).
    return C
