"""C07 Poisson and excitation models minimise their documented objective; all models agree in gamut."""
import numpy as np
import z3

from vf import fitspec as fs
from vf import symcp, symnp
from vf.symnp import S, SB

META = dict(
    functions=["dreye.api.optimize.lsq_linear.lsq_linear(model='poisson')", "lsq_linear_excitation", "_prepare_parameters(subtract=False)", "_prepare_variables",
               "_solve_problem", "dreye.api.optimize.parallel.concat/diagonal_stack", "ReceptorEstimator.fit (model dispatch: gaussian / poisson / excitation / unknown name)"],
    bounds=dict(quick="(receptors x sources) (2,2),(2,3),(3,2); 1-2 rows, batch 1; K none / length-1 / vector; baseline none / length-1 / vector (>= 0); "
                      "weights none / per-sample (> 0); A, targets >= 0; lb >= 0 symbolic, ub finite symbolic or default",
                thorough="adds (3,4),(4,5) and 3 rows"),
    stubs=["cvxpy -> symcp (contract stub; log has the domain constraint argument > 0)", "natural logarithm -> uninterpreted function ln"],
    assumptions=["real arithmetic", "A >= 0, targets >= 0, baseline >= 0, K > 0, weights > 0, 0 <= lb <= ub (the quantifier of the property = DCP domain of the formulations)",
                 "two properties of ln are assumed for the single clause 'Poisson reproduces in-gamut targets' and instantiated explicitly: "
                 "ln(t) <= t - 1 with equality only at t = 1, and ln(q/b) = ln q - ln b",
                 "the back end returns a global optimum (for the excitation model: of the quasi-convex problem, by bisection)"],
    outside=["accuracy of SCS / the bisection", "excitation objective with non-unit weights is checked in the weighted form e(w b) - e(w q)"],
)


def patches(case):
    return fs.fit_patches()


def _ln(M, v):
    return fs._ln(M, v)


def model_case(M, model, m, n, rows, kkind, bkind, wkind, ubkind="fin", via="function", warm_baseline=False):
    A, K, base, lb, ub, lbl, ubl = fs.mk_system(M, m, n, kkind, bkind, "pos", ubkind)
    # concrete modes: a mix of in- and out-of-gamut targets (per-receptor scales differ so that many are unreachable)
    B = M.real("B", (rows, m), sample=lambda r, s: r.uniform(0.5, 3.0, size=s) * r.choice([0.3, 1.0, 4.0], size=s))
    W = {"none": lambda: None, "mat": lambda: M.real("W", (rows, m), sample=lambda r, s: r.uniform(0.5, 2.0, size=s))}[wkind]()
    if W is not None:
        for v in np.asarray(W).ravel():
            M.assume(v > 0)
    fs.assume_nonneg_system(M, A, K, base, B, kkind)
    xc = M.real("xc", (rows, n), sample=lambda r, s: r.uniform(0.3, 1.0, size=s))
    if warm_baseline and via == "function":
        # an earlier fit of the same system with a different baseline must not influence this one
        other = np.asarray(base) + (symnp.const(0.75) if M.symbolic else 0.75)
        fs.call_model(model, A, B, lb, ub, W, K, other, 1)
    symcp.reset()
    if via == "function":
        X, Bp = fs.call_model(model, A, B, lb, ub, W, K, base, 1)
    else:
        from dreye.api.estimator import ReceptorEstimator
        kw = {}
        if K is not None:
            kw["K"] = K
        if base is not None:
            kw["baseline"] = base
        est = ReceptorEstimator(np.ones((m, 2)), **kw)
        est.A = A; est.Epsilon = "heteroscedastic"
        est.lb = lb; est.ub = np.full(n, np.inf) if ub is None else ub
        if W is not None:
            est.register_targets(B, W)
        X, Bp = est.fit(B, model=model)
    X = np.asarray(X); Bp = np.asarray(Bp)
    Aeff, beff = fs.effective_model(A, K, base, kkind)
    goals = {"shapes": X.shape == (rows, n) and Bp.shape == (rows, m)}
    if not goals["shapes"]:
        return goals
    solves = list(symcp.SOLVES)
    if M.symbolic:
        goals["one solve per row"] = len(solves) == rows
        if model == "poisson":
            # closed lemma (all reals): b, w, t > 0, L_j := ln t_j with L_j <= t_j - 1 and equality only at t_j = 1 (the stated facts about ln; t_j = q_j / b_j,
            # ln q_j - ln b_j = ln t_j):  sum_j w_j b_j (t_j - 1 - L_j) <= 0  [= NLL(q) - NLL(b)]  implies every t_j = 1, i.e. q = b
            t = [z3.Real(f"pl_t{j}") for j in range(m)]; L = [z3.Real(f"pl_L{j}") for j in range(m)]
            bb = [z3.Real(f"pl_b{j}") for j in range(m)]; ww = [z3.Real(f"pl_w{j}") for j in range(m)]
            hyp = [z3.And(bb[j] > 0, ww[j] > 0, t[j] > 0, L[j] <= t[j] - 1, z3.Implies(L[j] == t[j] - 1, t[j] == 1)) for j in range(m)]
            goals["poisson: excess negative log-likelihood <= 0 forces q = b (closed lemma from ln t <= t - 1, equality only at 1)"] = SB(z3.ForAll(
                t + L + bb + ww, z3.Implies(z3.And(hyp + [z3.Sum([ww[j] * bb[j] * (t[j] - 1 - L[j]) for j in range(m)]) <= 0]), z3.And([t[j] == 1 for j in range(m)]))))
        if model == "excitation":
            goals["excitation: |u-v|/((1+u)(1+v)) = |e(u)-e(v)| for u,v >= 0 (lemma behind the objective form)"] = fs.excitation_lemma(M)
            u, v = z3.Real("lem_u"), z3.Real("lem_v")
            ab = lambda t: z3.If(t >= 0, t, -t)
            goals["excitation: zero excitation difference only for equal captures (closed lemma)"] = SB(z3.ForAll([u, v], z3.Implies(
                z3.And(u >= 0, v >= 0, ab(u - v) / ((1 + u) * (1 + v)) == 0), u == v)))
    for i in range(rows):
        w = fs.weights(W, i, m)
        xi = list(X[i]); ci = list(xc[i]); bi = list(np.asarray(B)[i])
        goals[f"row{i}: prediction = K(A X + baseline)"] = M.eq(Bp[i], np.array(fs.predict(Aeff, beff, xi), dtype=object if M.symbolic else float))
        f_x = fs.model_objective(M, model, Aeff, beff, w, bi, xi)
        f_c = fs.model_objective(M, model, Aeff, beff, w, bi, ci)
        c_ok = M.conj(fs.in_bounds(M, ci, lbl, ubl), fs.model_domain(M, model, Aeff, beff, ci))
        if M.symbolic:
            goals[f"row{i}: bounds respected"] = fs.in_bounds(M, xi, lbl, ubl)
            if len(solves) != rows:
                continue
            rec = solves[i]
            var = rec["problem"].variables()[0]
            inst, obj_alt, cons_alt = symcp.optimality_instance(rec, fs.row_block_alt(rec, var, 0, n, ci))
            goals[f"row{i}: global minimum of the documented {model} objective over the bounds"] = (M.implies(c_ok, M.le(f_x, f_c)), [inst])
            goals[f"row{i}: solver problem feasible whenever the documented one is"] = (M.implies(c_ok, SB(cons_alt)), [], dict(pc_upto=rec["pc_before"]))
            q_c = fs.predict(Aeff, beff, ci); q_x = fs.predict(Aeff, beff, xi)
            repro = M.conj(c_ok, M.eq(np.array(q_c, dtype=object), np.array(bi, dtype=object)))
            if model == "excitation":
                goals[f"row{i}: excitation arguments non-negative (returned, competitor)"] = M.conj(
                    fs.excitation_nonneg(M, Aeff, beff, w, bi, xi), M.implies(fs.in_bounds(M, ci, lbl, ubl), fs.excitation_nonneg(M, Aeff, beff, w, bi, ci)))
                # in gamut: a reproducing competitor has error 0, errors are >= 0, hence the returned error is 0 and (closed lemma) captures are equal
                goals[f"row{i}: in gamut => a reproducing competitor has zero excitation error"] = M.implies(repro, M.eq(f_c, 0))
                goals[f"row{i}: excitation error is non-negative at the returned intensities"] = M.implies(M.le(0, np.array(xi, dtype=object)), M.le(0, f_x))
            if model == "poisson":
                # in gamut => reproduced: optimality (above) + "a reproducing competitor has likelihood sum w (b - b ln b)" (below, by congruence of ln)
                # + the closed lemma `poisson_lemma` (which uses the two stated facts about ln, with t_j = q_j / b_j)
                # (the objective is, by construction in fitspec.model_objective, the fixed function sum_j w_j (q_j - b_j ln q_j) of the predicted capture q,
                #  so a competitor with q = b attains sum_j w_j (b_j - b_j ln b_j) by substitution of equals; per entry:)
                goals[f"row{i}: in gamut => ln of the competitor's capture equals ln of the target (congruence)"] = M.implies(
                    repro, M.eq(np.array([_ln(M, q) for q in q_c], dtype=object), np.array([_ln(M, b_) for b_ in bi], dtype=object)))
        else:
            rng_ = 1.0 if ubl is None else max(1e-9, float(np.max(np.array(ubl) - np.array(lbl))))
            goals[f"row{i}: bounds respected"] = bool(np.all(np.array(xi) >= np.array(lbl) - 0.01 * rng_) and (ubl is None or np.all(np.array(xi) <= np.array(ubl) + 0.01 * rng_)))
            if model == "excitation":
                t_o = fs.excitation_oracle(Aeff, beff, w, bi, lbl, ubl)
                best = min(t_o, float(f_c) if c_ok else np.inf)
                goals[f"row{i}: global minimum of the documented {model} objective over the bounds"] = bool(float(f_x) <= best + 5e-3)
            else:
                f_o = fs.poisson_oracle(Aeff, beff, w, bi, lbl, ubl)
                best = min(f_o, float(f_c) if c_ok else np.inf)
                goals[f"row{i}: global minimum of the documented {model} objective over the bounds"] = bool(float(f_x) <= best + 2e-2 * max(1.0, float(np.max(w))))
    return goals


def dispatch_case(M):
    """unknown model names are rejected; 'gaussian', 'poisson', 'excitation' are the linear models"""
    from dreye.api.estimator import ReceptorEstimator
    A = M.real("A", (2, 3)); B = M.real("B", (1, 2))
    est = ReceptorEstimator(np.ones((2, 2)))
    est.A = A; est.Epsilon = "heteroscedastic"; est.lb = np.zeros(3); est.ub = np.ones(3)
    try:
        est.fit(B, model="no-such-model")
        return {"unknown model name rejected": False}
    except NameError:
        return {"unknown model name rejected": True}


def cases(tier, seed):
    C = []
    big = tier == "thorough"

    def add(name, **kw):
        C.append(dict(name=name, body="model_case", kwargs=kw, opts=dict(timeout_ms=60000, n_validate=1)))
    for model in ("poisson", "excitation"):
        for kkind in ("none", "scalar", "vec"):
            for bkind in ("none", "scalar", "vec"):
                for wkind in ("none", "mat"):
                    add(f"{model} 2x3 K={kkind} base={bkind} W={wkind}", model=model, m=2, n=3, rows=1, kkind=kkind, bkind=bkind, wkind=wkind)
        for (m, n) in ((2, 2), (3, 2)) + (((3, 4), (4, 5)) if big else ()):
            add(f"{model} {m}x{n} K=vec base=vec W=mat rows=2", model=model, m=m, n=n, rows=(3 if big else 2), kkind="vec", bkind="vec", wkind="mat")
        add(f"{model} 2x3 K=vec base=vec W=none ub=default", model=model, m=2, n=3, rows=1, kkind="vec", bkind="vec", wkind="none", ubkind="default")
        for shp in (((2, 2), (3, 2)) if model == "poisson" else ((2, 2),)):
            # (a cache inside the library keyed on the arrays' bytes is only hit by the real code's float arrays: the run of the real code decides)
            add(f"{model} {shp[0]}x{shp[1]} K=vec base=vec after an earlier fit of the same system with another baseline", model=model, m=shp[0], n=shp[1], rows=2, kkind="vec", bkind="vec",
                wkind="none", warm_baseline=True)
            C[-1]["opts"].update(n_validate=(3 if model == "poisson" else 2), float_strict=True)
        add(f"estimator.fit {model} 2x3 K=vec base=vec W=mat", model=model, m=2, n=3, rows=1, kkind="vec", bkind="vec", wkind="mat", via="estimator")
        if model == "poisson":
            # fewer sources than receptors: targets are out of gamut, so the registered per-sample weights decide the fit
            add(f"estimator.fit {model} 3x2 K=vec base=vec W=mat (registered with the targets)", model=model, m=3, n=2, rows=2, kkind="vec", bkind="vec", wkind="mat", via="estimator")
            C[-1]["opts"].update(n_validate=3)
        add(f"estimator.fit {model} 2x3 K=scalar base=scalar W=none", model=model, m=2, n=3, rows=1, kkind="scalar", bkind="scalar", wkind="none", via="estimator")
    C.append(dict(name="model dispatch", body="dispatch_case", kwargs={}, opts=dict(n_validate=1)))
    return C
