"""C16 barycentric and n-sphere coordinate transforms are exact mutual inverses."""
import numpy as np
import z3

from vf import harness, stubs, symnp, trig
from vf.symnp import S, SB

META = dict(
    functions=["dreye.api.barycentric.barycentric_to_cartesian_transformer", "barycentric_to_cartesian", "cartesian_to_barycentric", "barycentric_dim_reduction",
               "dreye.api.spherical.cartesian_to_spherical", "spherical_to_cartesian", "dreye.api.utils.l2norm"],
    bounds=dict(quick="regular simplex (unit edges, internal assertion unreachable): n = 2..9; affine map and scale invariance: n = 2..5, 2 points; inverse round trip: n = 2..4 "
                      "(exact Cramer inverse); n-sphere: dimension 2..3, 1-2 points, every zero pattern of the coordinates is covered symbolically (the code's special cases are If-terms)",
                thorough="regular simplex to n = 12"),
    stubs=["sklearn normalize(X,'l1',axis=1) -> rows / sum|x| (zero rows unchanged)", "np.arccos / cos / sin -> angle abstraction of vf/trig.py",
           "np.linalg.inv -> exact Cramer inverse", "np.sqrt / scipy norm -> exact algebraic symbol"],
    assumptions=["real (algebraic) arithmetic", "the stated trigonometric facts only (see vf/trig.py)"],
    outside=["inverse round trip for n >= 5, n-sphere dimension >= 4 (solver limits: unknown after 120 s)", "accuracy of arccos near +-1", "inputs of rank != 2 for the n-sphere functions"],
)


def patches(case):
    trig.install()
    return harness.standard_patches() + stubs.normalize_patches()


def simplex_case(M, n):
    from dreye.api.barycentric import barycentric_to_cartesian_transformer
    A = np.asarray(barycentric_to_cartesian_transformer(n))
    M.observe("A", A)
    goals = {"shape": A.shape == (n, n - 1)}
    if M.symbolic:
        ds = []
        for i in range(n):
            for j in range(i + 1, n):
                ds.append(((A[i] - A[j]) ** 2).sum())
        goals["corners map to a regular simplex with unit edges"] = M.eq(np.array(ds, dtype=object), np.ones(len(ds)))
    else:
        D = np.linalg.norm(A[:, None, :] - A[None, :, :], axis=-1)
        goals["corners map to a regular simplex with unit edges"] = bool(np.allclose(D[~np.eye(n, dtype=bool)], 1.0, atol=1e-9))
    return goals


def affine_case(M, n, center):
    from dreye.api.barycentric import barycentric_to_cartesian
    X = M.real("X", (2, n)); a = M.real("a", ())
    lhs = barycentric_to_cartesian((a * np.asarray(X)[0] + (1 - a) * np.asarray(X)[1])[None, :], center=center)
    Y = barycentric_to_cartesian(X, center=center)
    if center:
        for r in range(2):
            M.assume(fs_sum(list(np.asarray(X)[r])) == 1)  # centring subtracts the image of the centroid: affine on the plane sum = 1
    rhs = a * np.asarray(Y)[0] + (1 - a) * np.asarray(Y)[1]
    M.observe("Y", Y)
    return {"barycentric_to_cartesian is affine": M.eq(np.asarray(lhs)[0], rhs)}


def fs_sum(xs):
    t = xs[0]
    for x in xs[1:]:
        t = t + x
    return t


def roundtrip_case(M, n, centered, l1kind):
    from dreye.api.barycentric import barycentric_to_cartesian, cartesian_to_barycentric
    X = M.real("X", (2, n), sample=lambda r, s: (lambda v: v / v.sum(axis=1, keepdims=True))(r.uniform(0.1, 1.0, size=s)))
    if M.symbolic:
        for r in range(2):
            M.assume(fs_sum(list(np.asarray(X)[r])) == 1)
    else:
        X = np.asarray(X) / np.asarray(X).sum(axis=1, keepdims=True)  # rounding of the sample to 3 decimals
    L1 = {"none": lambda: None, "scalar": lambda: M.real("L1", ()), "vec": lambda: M.real("L1", (2,))}[l1kind]()
    Cc = barycentric_to_cartesian(X, center=centered)
    Bk = np.asarray(cartesian_to_barycentric(Cc, L1=L1, centered=centered))
    M.observe("Bk", Bk)
    l1 = [1, 1] if L1 is None else ([L1, L1] if np.ndim(L1) == 0 else list(L1))
    goals = {"shape": Bk.shape == (2, n)}
    if goals["shape"]:
        goals["cartesian_to_barycentric inverts barycentric_to_cartesian (times L1)"] = M.eq(Bk, np.array([[l1[r] * np.asarray(X)[r, j] for j in range(n)] for r in range(2)],
                                                                                              dtype=object if M.symbolic else float))
        goals["returned coordinates sum to the requested L1"] = M.eq(np.array([fs_sum(list(Bk[r])) for r in range(2)], dtype=object if M.symbolic else float),
                                                                     np.array(l1, dtype=object if M.symbolic else float))
    return goals


def reverse_case(M, n, centered, l1kind, int_points=None):
    """the other composition: cartesian -> barycentric -> cartesian, on the caller's own array"""
    from dreye.api.barycentric import barycentric_to_cartesian, cartesian_to_barycentric
    if int_points is not None:
        # integer-typed cartesian points (lattice points, np.zeros(..., int)): exact constants in the symbolic / exact runs, a genuine int64 array on the real code
        P = np.array(int_points, dtype=np.int64)
        if M.symbolic:
            P = symnp.const(P.astype(float))
        M.snaps["P"] = np.array(P, copy=True).view(np.ndarray); M.inputs["P"] = P
    else:
        P = M.real("P", (2, n - 1), sample=lambda r, s: r.uniform(-0.3, 0.3, size=s))
    L1 = {"none": lambda: None, "scalar": lambda: M.real("L1", (), sample=lambda r, s: r.uniform(0.5, 3.0)),
          "vec": lambda: M.real("L1", (2,), sample=lambda r, s: r.uniform(0.5, 3.0, size=s))}[l1kind]()
    l1 = [1, 1] if L1 is None else ([L1, L1] if np.ndim(L1) == 0 else list(np.asarray(L1)))
    for v in l1:
        if not isinstance(v, int):
            M.assume(v > 0)
    snap = np.array(P, dtype=object if M.symbolic else float, copy=True)
    Bk = np.asarray(cartesian_to_barycentric(P, L1=L1, centered=centered))
    goals = {"shape": Bk.shape == (2, n), "the caller's cartesian array is not modified": M.eq(np.asarray(P), snap)}
    if not goals["shape"]:
        return goals
    unit = np.array([[Bk[r, j] / l1[r] for j in range(n)] for r in range(2)], dtype=object if M.symbolic else float)
    back = np.asarray(barycentric_to_cartesian(unit.view(symnp.SymArray) if M.symbolic else unit, center=centered))
    M.observe("back", back)
    goals["barycentric_to_cartesian inverts cartesian_to_barycentric"] = M.eq(back, snap)
    again = np.asarray(cartesian_to_barycentric(P, L1=L1, centered=centered))
    goals["converting the same points twice gives the same coordinates"] = M.eq(again, Bk)
    goals["returned coordinates sum to the requested L1"] = M.eq(np.array([fs_sum(list(Bk[r])) for r in range(2)], dtype=object if M.symbolic else float),
                                                                 np.array(l1, dtype=object if M.symbolic else float))
    return goals


def scale_case(M, n, center):
    from dreye.api.barycentric import barycentric_dim_reduction
    X = M.real("X", (2, n), sample=lambda r, s: r.uniform(0.0, 2.0, size=s)); t = M.real("t", (2,), sample=lambda r, s: 10.0 ** r.uniform(-12, 3, size=s))
    for v in np.asarray(t):
        M.assume(v > 0)
    for r in range(2):
        M.assume(fs_sum([abs(v) for v in np.asarray(X)[r]]) > 0)
    a = barycentric_dim_reduction(X, center=center)
    b = barycentric_dim_reduction(np.asarray(X) * np.asarray(t)[:, None], center=center)
    M.observe("a", a)
    return {"chromatic reduction is invariant to the overall scale of each capture vector": M.eq(b, a)}


def sphere_case(M, d, npts):
    from dreye.api.spherical import cartesian_to_spherical, spherical_to_cartesian
    X = M.real("X", (npts, d), sample=lambda r, s: r.choice([-1.5, -0.5, 0.0, 0.0, 0.7, 2.0], size=s))
    Y = np.asarray(cartesian_to_spherical(X))
    Z = np.asarray(spherical_to_cartesian(Y))
    M.observe("Z", Z)
    goals = {"shapes": Y.shape == (npts, d) and Z.shape == (npts, d)}
    if not goals["shapes"]:
        return goals
    Xa = np.asarray(X)
    if M.symbolic:
        pi = trig.pi()
        rad = [(fs_sum([Xa[p, k] * Xa[p, k] for k in range(d)])).sqrt() for p in range(npts)]
    else:
        pi = np.pi
        rad = [float(np.sqrt(np.sum(Xa[p] ** 2))) for p in range(npts)]
    goals["radius is the Euclidean norm"] = M.eq(Y[:, 0], np.array(rad, dtype=object if M.symbolic else float))
    if d > 2:
        goals["polar angles lie in [0, pi]"] = M.conj(M.le(0, Y[:, 1:-1]), M.le(Y[:, 1:-1], pi))
    goals["azimuth lies in [0, 2 pi]"] = M.conj(M.le(0, Y[:, -1]), M.le(Y[:, -1], 2 * pi))
    goals["spherical_to_cartesian(cartesian_to_spherical(X)) = X"] = M.eq(Z, Xa)
    return goals


def cases(tier, seed):
    C = []
    big = tier == "thorough"

    def add(name, body, **kw):
        C.append(dict(name=name, body=body, kwargs=kw, opts=dict(timeout_ms=120000, n_validate=2)))
    for n in range(2, (13 if big else 10)):
        add(f"regular simplex n={n}", "simplex_case", n=n)
    for n in range(2, 6):
        for center in (False, True):
            add(f"affine n={n} center={center}", "affine_case", n=n, center=center)
            add(f"scale invariance n={n} center={center}", "scale_case", n=n, center=center)
    for n in (2, 3, 4):
        for centered in (False, True):
            for l1kind in ("none", "scalar", "vec"):
                add(f"inverse round trip n={n} centered={centered} L1={l1kind}", "roundtrip_case", n=n, centered=centered, l1kind=l1kind)
                add(f"reverse round trip n={n} centered={centered} L1={l1kind}", "reverse_case", n=n, centered=centered, l1kind=l1kind)
    for centered in (False, True):
        add(f"reverse round trip n=3 centered={centered} integer-typed points", "reverse_case", n=3, centered=centered, l1kind="none", int_points=[[0, 0], [1, -1]])
        C[-1]["opts"].update(float_strict=True)
    for d in (2, 3):  # d = 4 was probed in both tiers: z3 returns unknown after 120 s even for one point (stated bound: dimension <= 3)
        for npts in (1, 2):
            add(f"n-sphere d={d} points={npts}", "sphere_case", d=d, npts=npts)
    return C
