"""C02 a registered system is the exact linear model of the receptor responses."""
import numpy as np

from vf.props.c01 import _dom, _trap

META = dict(
    functions=["ReceptorEstimator.__init__", "register_system", "capture", "_check_domain", "system_capture", "system_relative_capture",
               "_relative_capture", "relative_capture", "register_adaptation", "register_baseline", "register_background_adaptation",
               "register_system_adaptation", "dreye.api.capture.calculate_capture", "dreye.api.utils.ensure_bounds"],
    bounds=dict(quick="receptors 2-3, sources 1-4, domain points 3-4, batch of 2 intensity vectors (and a single 1-D vector); K scalar / vector / "
                      "square matrix; baseline 0 / scalar / vector; symbolic ascending array domain and symbolic scalar step",
                thorough="receptors up to 5, sources up to 8, domain points up to 6, batch 3"),
    stubs=[],
    assumptions=["real arithmetic", "Q_background + baseline != 0 for the adaptation clauses (division)"],
    outside=["float rounding", "sizes beyond the bound"],
)


def _mk(M, nf, ns, nd, dom, kkind, bkind):
    from dreye.api.estimator import ReceptorEstimator
    F = M.real("f", (nf, nd)); Src = M.real("src", (ns, nd))
    domain, grid = _dom(M, nd, dom)
    K = {"scalar": lambda: M.real("k", ()), "vec": lambda: M.real("k", (nf,)), "mat": lambda: M.real("k", (nf, nf)), "default": lambda: None}[kkind]()
    base = {"zero": lambda: None, "scalar": lambda: M.real("b", ()), "vec": lambda: M.real("b", (nf,))}[bkind]()
    kw = {}
    if K is not None:
        kw["K"] = K
    if base is not None:
        kw["baseline"] = base
    est = ReceptorEstimator(F, domain=domain, **kw)
    est.register_system(Src, lb=0.0, ub=1.0)
    return est, F, Src, grid, K, base


def _spec_capture(F, spectrum, grid):
    return [_trap(np.asarray(F)[j], spectrum, grid) for j in range(np.asarray(F).shape[0])]


def _spec_relative(q, K, base, kkind, nf):
    qb = [q[j] + (0 if base is None else (base[j] if np.ndim(base) else base)) for j in range(nf)]
    if kkind == "mat":
        return [sum((K[j, l] * qb[l] for l in range(1, nf)), K[j, 0] * qb[0]) for j in range(nf)]
    if kkind == "vec":
        return [K[j] * qb[j] for j in range(nf)]
    if kkind == "scalar":
        return [K * qb[j] for j in range(nf)]
    return qb


def linear_model_case(M, nf, ns, nd, dom, kkind, bkind, batch):
    est, F, Src, grid, K, base = _mk(M, nf, ns, nd, dom, kkind, bkind)
    x = M.real("x", (batch, ns) if batch else (ns,))
    X2 = np.atleast_2d(np.asarray(x))
    got_abs = np.atleast_2d(np.asarray(est.system_capture(x)))
    got_rel = np.atleast_2d(np.asarray(est.system_relative_capture(x)))
    mixed = X2 @ np.asarray(Src)  # physically mixed spectra
    via_capture = np.atleast_2d(np.asarray(est.capture(mixed)))
    via_rel = np.atleast_2d(np.asarray(est.relative_capture(mixed)))
    M.observe("abs", got_abs); M.observe("rel", got_rel)
    spec_abs = np.empty((X2.shape[0], nf), dtype=object); spec_rel = np.empty((X2.shape[0], nf), dtype=object)
    for r in range(X2.shape[0]):
        q = _spec_capture(F, mixed[r], grid)
        spec_abs[r] = q
        spec_rel[r] = _spec_relative(q, K, base, kkind, nf)
    if not M.symbolic:
        spec_abs = spec_abs.astype(float); spec_rel = spec_rel.astype(float)
    goals = {"shape": got_abs.shape == (X2.shape[0], nf) and got_rel.shape == (X2.shape[0], nf)}
    if goals["shape"]:
        goals["system_capture(x)=trapezoid capture of sum_k x_k source_k"] = M.eq(got_abs, spec_abs)
        goals["system_capture(x)=capture(mixed spectrum)"] = M.eq(got_abs, via_capture)
        goals["system_relative_capture(x)=K(Q+baseline)"] = M.eq(got_rel, spec_rel)
        goals["relative_capture(mixed)=K(Q+baseline)"] = M.eq(via_rel, spec_rel)
    A = np.asarray(est.A)
    goals["A=capture(sources)^T"] = A.shape == (nf, ns) and M.eq(A, np.array([[_trap(np.asarray(F)[j], np.asarray(Src)[k], grid) for k in range(ns)] for j in range(nf)],
                                                                           dtype=object if M.symbolic else float))
    return goals


def adapt_case(M, nf, ns, nd, dom, kkind, bkind, how, add):
    est, F, Src, grid, K, base = _mk(M, nf, ns, nd, dom, kkind, bkind)
    K_old = np.asarray(est.K)
    if how == "background":
        bg = M.real("bg", (nd,))
        q = _spec_capture(F, np.asarray(bg), grid)
    else:
        x0 = M.real("x0", (ns,))
        q = _spec_capture(F, np.asarray(x0) @ np.asarray(Src), grid)
    qb = [q[j] + (0 if base is None else (base[j] if np.ndim(base) else base)) for j in range(nf)]
    for v in qb:
        M.assume(v != 0)
    if how == "background":
        est.register_background_adaptation(bg, add=add)
        rel = np.asarray(est.relative_capture(bg))
    else:
        est.register_system_adaptation(x0, add=add)
        rel = np.asarray(est.system_relative_capture(x0))
    M.observe("rel", rel)
    Knew = np.asarray(est.K)
    goals = {}
    if not add:
        goals["K=1/(Q_bg+baseline)"] = Knew.shape == (nf,) and M.eq(Knew, np.array([1 / v for v in qb], dtype=object if M.symbolic else float))
        goals["relative capture of the adapting background is 1"] = rel.shape == (nf,) and M.eq(rel, np.ones(nf))
    else:
        if kkind in ("scalar", "vec", "default"):
            kold = np.broadcast_to(K_old, (nf,))
            goals["K=K_old+1/(Q_bg+baseline)"] = Knew.shape == (nf,) and M.eq(Knew, np.array([kold[j] + 1 / qb[j] for j in range(nf)], dtype=object if M.symbolic else float))
    return goals


def cases(tier, seed):
    C = []

    def add(name, body, **kw):
        C.append(dict(name=name, body=body, kwargs=kw))
    big = tier == "thorough"
    shapes = [(2, 1, 3), (2, 3, 3), (3, 2, 4), (3, 4, 3)] + ([(4, 6, 4), (5, 8, 3), (3, 3, 6)] if big else [])
    for nf, ns, nd in shapes:
        for kkind in ("default", "scalar", "vec", "mat"):
            for bkind in ("zero", "scalar", "vec"):
                if not big and (nf, ns, nd) in {(3, 4, 3)} and kkind == "default":
                    continue
                for dom in (("array", "scalar") if (nf, ns, nd) in {(2, 3, 3), (3, 2, 4)} else ("array",)):
                    add(f"model F{nf} S{ns} D{nd} K={kkind} base={bkind} {dom} batch2", "linear_model_case", nf=nf, ns=ns, nd=nd, dom=dom, kkind=kkind, bkind=bkind, batch=(3 if big else 2))
        add(f"model F{nf} S{ns} D{nd} K=vec base=vec 1-D x", "linear_model_case", nf=nf, ns=ns, nd=nd, dom="array", kkind="vec", bkind="vec", batch=0)
        add(f"model F{nf} S{ns} D{nd} K=mat base=vec 1-D x", "linear_model_case", nf=nf, ns=ns, nd=nd, dom="array", kkind="mat", bkind="vec", batch=0)
    for nf, ns, nd in ([(2, 2, 3), (3, 2, 3)] + ([(4, 3, 4)] if big else [])):
        for how in ("background", "system"):
            for kkind in ("default", "scalar", "vec", "mat"):
                for bkind in ("zero", "scalar", "vec"):
                    for addf in (False, True):
                        if addf and kkind == "mat":
                            continue
                        add(f"adapt {how} F{nf} S{ns} D{nd} K={kkind} base={bkind} add={addf}", "adapt_case", nf=nf, ns=ns, nd=nd, dom="array",
                            kkind=kkind, bkind=bkind, how=how, add=addf)
    return C
