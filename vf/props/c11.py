"""C11 layer decomposition honours every constraint and never worsens its fit."""
import importlib

import numpy as np
import z3

from vf import fitspec as fs
from vf import harness, symcp, symnp
from vf.symnp import S, SB, E, lift

META = dict(
    functions=["dreye.api.optimize.lsq_linear.lsq_linear_decomposition (initialisation, X-step, P-step, loop with its termination tests, final X refit, full P refit after "
               "subsampling)", "dreye.api.optimize.utils.prepare_parameters_for_linear", "ReceptorEstimator.fit_decomposition (wiring)"],
    bounds=dict(quick="2 receptors x 3 sources, 2 layers, 2 samples (3 with subsampling), masks {all ones, one forbidden source per layer, disjoint layers}, with/without equal-L1, "
                      "with/without subsampling, max_iter unrolled to 1 and 2 alternations (+ final refit), K vector, baseline vector, per-sample weights; everything symbolic",
                thorough="3 layers, 3 samples"),
    stubs=["cvxpy -> symcp (contract stub)", "sklearn NMF -> components_: arbitrary non-negative matrix with a positive maximum (constructor arguments recorded)",
           "numpy default_rng(seed).choice -> the index vector fixed by the case (seed recorded)", "np.linalg.norm / scipy norm -> exact sqrt symbol"],
    assumptions=["real arithmetic", "weights > 0, 0 <= lb <= ub, 0 <= lbp <= ubp", "the back end returns a global optimum of every sub-problem it is handed"],
    outside=["more than 2 alternations (the loop body is the same code; stated, not proved)", "SCS accuracy (bounds are met to ~1e-3 only by the real default solver)",
             "whether the termination tests stop at a sensible point"],
)

REC = {}


class _NMF:
    def __init__(self, n_components=None, random_state=None, init=None, max_iter=None, verbose=0, **kw):
        REC["nmf"] = dict(n_components=n_components, random_state=random_state, init=init, max_iter=max_iter)
        self.k = n_components

    def fit(self, X):
        e = E()
        X = np.asarray(X)
        C = np.empty((self.k, X.shape[1]), dtype=object)
        for idx in np.ndindex(*C.shape):
            C[idx] = S(z3.Real(f"nmf_{idx[0]}_{idx[1]}"))
            e.assume(C[idx].t >= 0)
        e.assume(z3.Or([C[idx].t > 0 for idx in np.ndindex(*C.shape)]))
        self.components_ = C.view(symnp.SymArray)
        return self


class _Rng:
    def __init__(self, seed=None):
        REC.setdefault("rng_seeds", []).append(seed)

    def choice(self, a, size=None, replace=True, p=None):
        REC["choice"] = dict(a=a, size=size, replace=replace)
        idx = REC["plan_subsample"]
        if size is not None and len(idx) != size:
            raise ValueError("plan/size mismatch")
        return np.array(idx, dtype=int)


def patches(case):
    L = importlib.import_module("dreye.api.optimize.lsq_linear")
    return fs.fit_patches() + [(L, "NMF", _NMF), (L, "default_rng", _Rng)]


def _loss(M, Aeff, beff, B, W, P, X):
    """Frobenius error of W * (P X Aeff^T - (B - beff)) (smaller is better), as a sum of squares"""
    rows, m = len(B), len(Aeff)
    tot = 0
    for i in range(rows):
        for r in range(m):
            pred = fs._sum([P[i][l] * fs._sum([X[l][j] * Aeff[r][j] for j in range(len(X[l]))]) for l in range(len(X))])
            d = W[i][r] * (pred - (B[i][r] - beff[r]))
            tot = tot + d * d
    return tot


def _x_ok(M, X, lbl, ubl, mask, equal_l1):
    gs = []
    for l in range(len(X)):
        gs.append(fs.in_bounds(M, list(X[l]), lbl, ubl))
        for j in range(len(X[l])):
            if mask[l][j] == 0:
                gs.append(M.eq(X[l][j], 0))
    if equal_l1 and len(X) > 1:
        s0 = fs._sum(list(X[0]))
        for l in range(1, len(X)):
            gs.append(M.eq(fs._sum(list(X[l])), s0))
    return M.conj(*gs)


def _p_ok(M, P, lbp, ubp):
    return M.conj(*[M.conj(M.le(lbp, v), M.le(v, ubp)) for row in P for v in row])


def decomp_case(M, mask, equal_l1, max_iter, subsample=None, via="function"):
    from dreye.api.optimize.lsq_linear import lsq_linear_decomposition
    m, n = 2, 3
    layers = len(mask)
    rows = 3 if subsample else 2
    A, K, base, lb, ub, lbl, ubl = fs.mk_system(M, m, n, "vec", "vec", "zero" if any(0 in r for r in mask) else "pos", "fin")
    B = M.real("B", (rows, m), sample=lambda r, s: r.uniform(0.5, 3.0, size=s))
    W = M.real("W", (rows, m), sample=lambda r, s: r.uniform(0.5, 2.0, size=s))
    for v in np.asarray(W).ravel():
        M.assume(v > 0)
    Xc = M.real("Xc", (layers, n), sample=lambda r, s: r.uniform(0.2, 1.0, size=s))  # competitor for the factor fitted last
    Pc = M.real("Pc", (rows, layers), sample=lambda r, s: r.uniform(0.1, 0.9, size=s))
    REC.clear()
    keep = None
    if subsample:
        keep = [2, 0]
        REC["plan_subsample"] = keep
    symcp.reset()
    kw = dict(n_layers=layers, mask=np.array(mask), lb=lb, ub=ub, W=W, lbp=0, ubp=1, K=K, baseline=base, max_iter=max_iter, seed=5,
              subsample=(2.0 / 3.0 if subsample else None), return_pred=True, equal_l1norm_constraint=equal_l1)
    import warnings
    with warnings.catch_warnings():
        warnings.simplefilter("ignore")
        if via == "function":
            X, P, Bp = lsq_linear_decomposition(A, B, **kw)
        else:
            from dreye.api.estimator import ReceptorEstimator
            est = ReceptorEstimator(np.ones((m, 2)), K=K, baseline=base)
            est.A = A; est.Epsilon = "heteroscedastic"; est.lb = lb; est.ub = ub
            est.register_targets(B, W)
            X, P, Bp = est.fit_decomposition(B, n_layers=layers, mask=np.array(mask), max_iter=max_iter, seed=5, subsample=(2.0 / 3.0 if subsample else None),
                                             equal_l1norm_constraint=equal_l1)
    X = np.asarray(X); P = np.asarray(P); Bp = np.asarray(Bp)
    Aeff, beff = fs.effective_model(A, K, base, "vec")
    goals = {"shapes": X.shape == (layers, n) and P.shape == (rows, layers) and Bp.shape == (rows, m)}
    if not goals["shapes"]:
        return goals
    Xl = [list(X[l]) for l in range(layers)]; Pl = [list(P[i]) for i in range(rows)]
    Bl = [list(np.asarray(B)[i]) for i in range(rows)]; Wl = [list(np.asarray(W)[i]) for i in range(rows)]
    spec_pred = np.array([[fs._sum([Pl[i][l] * fs._sum([Xl[l][j] * Aeff[r][j] for j in range(n)]) for l in range(layers)]) + beff[r] for r in range(m)] for i in range(rows)],
                         dtype=object if M.symbolic else float)
    goals["fitted capture = model capture of opacities times intensities"] = M.eq(Bp, spec_pred)
    if not M.symbolic:
        tol = 2e-2
        ok = bool(np.all(X >= np.array(lbl) - tol) and np.all(X <= np.array(ubl) + tol) and np.all(P >= -tol) and np.all(P <= 1 + tol))
        ok = ok and all(abs(float(X[l][j])) <= tol for l in range(layers) for j in range(n) if mask[l][j] == 0)
        if equal_l1 and layers > 1:
            ok = ok and bool(np.ptp(X.sum(axis=1)) <= 5 * tol)
        goals["intensities within the source bounds, zero where the mask forbids, equal layer totals if requested; opacities within their bounds"] = ok
        # independent optimum of the factor fitted last (bounded least squares via scipy BVLS)
        from scipy.optimize import lsq_linear as sls
        Ae = np.array(Aeff, dtype=float); be = np.array(beff, dtype=float); Bf = np.asarray(B, dtype=float) - be; Wf = np.asarray(W, dtype=float)
        got = float(np.sqrt(np.sum((Wf * (P @ X @ Ae.T - Bf)) ** 2)))
        if subsample:
            best = 0.0
            D = Ae @ X.T  # (m, layers)
            for i in range(rows):
                r = sls(D * Wf[i][:, None], Wf[i] * Bf[i], bounds=(0, 1), method="bvls", tol=1e-12)
                best += 2 * r.cost
            goals["the factor fitted last is globally optimal given the other (vs scipy BVLS)"] = bool(got <= np.sqrt(best) + 5e-2)
        elif not (equal_l1 and layers > 1):
            D = np.kron(P, Ae) * Wf.reshape(-1)[:, None]  # rows (i, r), cols (l, j)
            lo = np.tile(np.array(lbl, dtype=float), layers); hi = np.tile(np.array(ubl, dtype=float), layers)
            mk = np.array(mask, dtype=float).reshape(-1)
            lo = lo * mk; hi = np.where(mk == 0, 1e-12, hi)
            r = sls(D, (Wf * Bf).reshape(-1), bounds=(lo, hi), method="bvls", tol=1e-12)
            goals["the factor fitted last is globally optimal given the other (vs scipy BVLS)"] = bool(got <= np.sqrt(2 * r.cost) + 5e-2)
        return goals
    goals["intensities within the source bounds, zero where the mask forbids, equal layer totals if requested"] = _x_ok(M, Xl, lbl, ubl, mask, equal_l1)
    goals["opacities within their bounds"] = _p_ok(M, Pl, 0, 1)
    goals["initialisation and subsampling use the seed (NMF random_state, generator)"] = REC.get("nmf", {}).get("random_state") == 5 and \
        (REC.get("rng_seeds") == [5] if subsample else REC.get("rng_seeds") is None)
    solves = list(symcp.SOLVES)
    M.tag(f"solves={len(solves)}")
    # records: x, p, [x, p]..., final x, [full p]
    last = solves[-1]
    if subsample:
        vP = [v for v in last["problem"].variables() if v.shape == (rows, layers)]
        goals["the last solve fits the opacities of ALL samples"] = len(vP) == 1
        if len(vP) == 1:
            inst, _, cons_alt = symcp.optimality_instance(last, {vP[0]: np.asarray(Pc, dtype=object).view(symnp.SymArray)})
            Pcl = [list(np.asarray(Pc)[i]) for i in range(rows)]
            goals["the factor fitted last (opacities of all samples) is globally optimal given the intensities"] = (
                M.implies(_p_ok(M, Pcl, 0, 1), M.le(_nrm(_loss(M, Aeff, beff, Bl, Wl, Pl, Xl)), _nrm(_loss(M, Aeff, beff, Bl, Wl, Pcl, Xl)))), [inst])
    else:
        vX = [v for v in last["problem"].variables() if v.shape == (layers, n)]
        goals["the last solve refits the intensities"] = len(vX) == 1
        if len(vX) == 1:
            inst, _, cons_alt = symcp.optimality_instance(last, {vX[0]: np.asarray(Xc, dtype=object).view(symnp.SymArray)})
            Xcl = [list(np.asarray(Xc)[l]) for l in range(layers)]
            goals["the factor fitted last (intensities) is globally optimal given the opacities"] = (
                M.implies(_x_ok(M, Xcl, lbl, ubl, mask, equal_l1), M.le(_nrm(_loss(M, Aeff, beff, Bl, Wl, Pl, Xl)), _nrm(_loss(M, Aeff, beff, Bl, Wl, Pl, Xcl)))), [inst])
            goals["the intensity sub-problem is feasible whenever the documented constraints are"] = (
                M.implies(_x_ok(M, Xcl, lbl, ubl, mask, equal_l1), SB(cons_alt)), [], dict(pc_upto=last["pc_before"]))
        # every sub-problem minimises the documented weighted fitting error (as a function of its own factor, the other one fixed to the previous solve's result)
        for k in range(1, len(solves)):
            cur, prev = solves[k], solves[k - 1]
            vk = cur["problem"].variables()[0]; vp = prev["problem"].variables()[0]
            fk = np.asarray(cur["xstar"][vk]); fp = np.asarray(prev["xstar"][vp])
            if fk.shape == (layers, n) and fp.shape == (rows, layers):
                Pk, Xk = [list(fp[i]) for i in range(rows)], [list(fk[l]) for l in range(layers)]
            elif fk.shape == (rows, layers) and fp.shape == (layers, n):
                Pk, Xk = [list(fk[i]) for i in range(rows)], [list(fp[l]) for l in range(layers)]
            else:
                continue
            which = "intensity" if fk.shape == (layers, n) else "opacity"
            goals[f"solve {k} ({which} step): the minimised objective is the weighted fitting error"] = M.eq(cur["obj"], _nrm(_loss(M, Aeff, beff, Bl, Wl, Pk, Xk)))
        # descent: every solve's objective value does not exceed its value at the previous iterate (instances of the contract at the previous iterate)
        if len(solves) >= 3:
            chain = []
            for k in range(1, len(solves)):
                prev, cur = solves[k - 1], solves[k]
                # solve k optimises one factor with the other fixed to the result of solve k-1; the previous value of its own factor is feasible (it satisfied
                # the same constraints two solves ago, or is the initial opacity matrix for k = 1)
                if k >= 2:
                    var_k = cur["problem"].variables()[0]
                    prev_same = solves[k - 2]["xstar"][solves[k - 2]["problem"].variables()[0]]
                    inst_k, obj_prev, cons_prev = symcp.optimality_instance(cur, {var_k: prev_same})
                    chain.append((k, inst_k, cur["obj"], obj_prev, cons_prev))
            for (k, inst_k, obj_k, obj_prev, cons_prev) in chain:
                goals[f"solve {k}: the previous iterate of the same factor is feasible"] = SB(cons_prev)
                goals[f"solve {k}: the fitting error does not increase (objective after <= objective at the previous iterate)"] = (M.le(obj_k, obj_prev), [inst_k, cons_prev])
    return goals


def _nrm(v):
    """Frobenius norm of the weighted error (the quantity the solver minimises); squared errors compare the same way (closed lemma in `lemma_case`)"""
    return (v if isinstance(v, S) else S(lift(v))).sqrt()


def _sqrt_mono(M):
    """the solver minimises the Frobenius NORM, the clauses compare squared errors: for a, b >= 0, sqrt(a) <= sqrt(b) implies a <= b (closed, added as a hypothesis
    after being proved once as its own goal in `lemma_case`)"""
    return z3.BoolVal(True)


def lemma_case(M):
    a, b, x, y = z3.Reals("lm_a lm_b lm_x lm_y")
    return {"lemma: x, y >= 0, x^2 = a, y^2 = b, x <= y imply a <= b": SB(z3.ForAll([a, b, x, y], z3.Implies(z3.And(x >= 0, y >= 0, x * x == a, y * y == b, x <= y), a <= b)))}


def cases(tier, seed):
    C = []
    big = tier == "thorough"

    def add(name, **kw):
        C.append(dict(name=name, body="decomp_case", kwargs=kw, opts=dict(timeout_ms=90000, n_validate=1, max_paths=60)))
    masks = {"all": [[1, 1, 1], [1, 1, 1]], "one-forbidden": [[1, 1, 0], [0, 1, 1]], "disjoint": [[1, 0, 0], [0, 1, 1]]}
    for mname, mask in masks.items():
        for equal_l1 in (True, False):
            add(f"mask={mname} equal-L1={equal_l1} alternations=1", mask=mask, equal_l1=equal_l1, max_iter=1)
    add("mask=one-forbidden equal-L1=True alternations=2", mask=masks["one-forbidden"], equal_l1=True, max_iter=2)
    add("mask=all equal-L1=False alternations=1 subsample", mask=masks["all"], equal_l1=False, max_iter=1, subsample=True)
    add("estimator.fit_decomposition mask=one-forbidden", mask=masks["one-forbidden"], equal_l1=True, max_iter=1, via="estimator")
    C.append(dict(name="square-root lemma", body="lemma_case", kwargs={}, opts=dict(n_validate=0)))
    return C
