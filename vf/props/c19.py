"""C19 domain equalisation interpolates onto the exact overlap at coarsest resolution."""
import numpy as np
import z3

from vf import harness, stubs, symnp
from vf.props.c01 import _trap
from vf.symnp import S, SB, lift

META = dict(
    functions=["dreye.api.domain.equalize_domains", "_is_equal_domains", "_interpolate_domains", "_get_domain_bounds_and_diff", "_stack_or_concatenate",
               "dreye.api.utils.arange_with_interval", "ReceptorEstimator._check_domain", "ReceptorEstimator.capture(signals, domain=...)"],
    bounds=dict(quick="2-3 domains of 2-4 points, each symbolic strictly ascending or strictly descending, partially overlapping / nested / disjoint; arrays of rank 1-3 with the "
                      "domain on any axis; number of points of the common grid 2..6 (the rounding of overlap/step forks over the integer); stack / concatenate; "
                      "estimator capture with a foreign domain (2 filters, 2 signals)",
                thorough="domains up to 5 points, common grid up to 9 points"),
    stubs=["scipy interp1d -> sorts its x, piecewise-linear interpolant as If-terms, fill_value outside, call arguments recorded"],
    assumptions=["real arithmetic", "domains strictly monotone (ascending or descending); arbitrary unsorted domains only through the sorting fork of the stub (length <= 3) and as two concrete zig-zag pairs with symbolic arrays"],
    outside=["scipy's interpolation arithmetic itself", "common grids with more points than the bound"],
)


def patches(case):
    return harness.standard_patches() + stubs.interp_patches()


def _domain(M, name, n, kind, lo=0.0):
    d = M.real(name, (n,), sample=lambda r, s: (lo + np.cumsum(r.uniform(0.4, 1.6, size=s))) * 1.0)
    if kind == "desc":
        d = d[::-1] if M.symbolic else np.asarray(d)[::-1].copy()
    dd = list(np.asarray(d))
    for k in range(n - 1):
        M.assume(dd[k + 1] > dd[k]) if kind == "asc" else M.assume(dd[k + 1] < dd[k])
    return d


def _lerp(xs, ys, x, fill):
    """harness-side piecewise-linear interpolation of points (xs ascending) at x (symbolic or float)"""
    if isinstance(x, S) or any(isinstance(v, S) for v in list(xs) + list(ys)):
        val = lift(fill)
        for k in range(len(xs) - 2, -1, -1):
            x0, x1 = lift(xs[k]), lift(xs[k + 1])
            val = z3.If(z3.And(lift(x) >= x0, lift(x) <= x1), lift(ys[k]) + (lift(ys[k + 1]) - lift(ys[k])) * (lift(x) - x0) / (x1 - x0), val)
        return S(val)
    if x < xs[0] or x > xs[-1]:
        return fill
    return float(np.interp(x, np.asarray(xs, dtype=float), np.asarray(ys, dtype=float)))


def _asc(d, arr_along_last):
    """domain and the array (domain on the last axis) in ascending order of the domain (domains are monotone)"""
    d = list(np.asarray(d)); a = np.asarray(arr_along_last)
    if len(d) > 1 and (bool(d[0] > d[-1]) if not isinstance(d[0], S) else None):
        return d[::-1], a[..., ::-1]
    return d, a


def equalize_case(M, lens, kinds, shapes, axes, fill=0, offsets=None, stack=None, concrete=None, scalar_axes=False):
    from dreye.api.domain import equalize_domains
    nd = len(lens)
    offsets = offsets or [0.0] * nd
    if concrete is not None:
        # concrete integer-typed wavelength grids (what users pass: np.arange(300, 701, 5)); the arrays stay symbolic
        doms = [np.array(c, dtype=np.int64) for c in concrete]
    else:
        doms = [_domain(M, f"d{i}", lens[i], kinds[i], offsets[i]) for i in range(nd)]
    arrs = []
    for i in range(nd):
        shp = list(shapes[i]); shp[axes[i]] = lens[i]
        arrs.append(M.real(f"a{i}", tuple(shp)))
    stubs.INTERP_CALLS.clear()
    kw = {}
    if stack is not None:
        kw = dict(stack_axis=stack[0], concatenate=stack[1])
    try:
        # `axes` may be one integer for all arrays (documented): passed as such when the case says so
        new_dom, new_arrs = equalize_domains(list(doms), list(arrs), axes=(axes[0] if scalar_axes else list(axes)), fill_value=fill, **kw)
    except ValueError as e:
        if "Cannot equalize" not in str(e):
            raise
        # rejected: must be because there is no overlap or it is shorter than the coarsest mean step
        lo = _max(M, [_min(M, list(np.asarray(d))) for d in doms]); hi = _min(M, [_max(M, list(np.asarray(d))) for d in doms])
        step = _max(M, [_mean_step(M, d) for d in doms])
        return {"rejected only when the overlap is empty or shorter than the coarsest mean step": _or(M, _le(M, hi, lo), _lt(M, hi - lo, step))}
    new_dom = np.asarray(new_dom)
    M.observe("new_dom", new_dom)
    goals = {}
    same_len = all(l == lens[0] for l in lens)
    no_interp = (len(stubs.INTERP_CALLS) == 0) if M.symbolic else (same_len and all(np.array_equal(np.asarray(doms[0]), np.asarray(d)) for d in doms))
    if no_interp:
        # the arrays already share a domain: returned unchanged; this branch must only be taken for identical domains
        goals["no interpolation only for identical domains"] = same_len and M.conj(*[M.eq(np.asarray(d), np.asarray(doms[0])) for d in doms[1:]])
        goals["shared domain returned as is"] = M.eq(new_dom, np.asarray(doms[0]))
        if stack is None:
            goals["arrays returned unchanged"] = all(new_arrs[i] is arrs[i] for i in range(nd))
        return goals
    lo = _max(M, [_min(M, list(np.asarray(d))) for d in doms]); hi = _min(M, [_max(M, list(np.asarray(d))) for d in doms])
    step = _max(M, [_mean_step(M, d) for d in doms])
    npts = len(new_dom)
    goals["common domain starts at the largest minimum and ends at the smallest maximum"] = M.conj(M.eq(new_dom[0], lo), M.eq(new_dom[-1], hi))
    if npts > 2:
        goals["common domain is uniformly spaced"] = M.eq(np.array([new_dom[k + 1] - new_dom[k] for k in range(npts - 1)], dtype=object if M.symbolic else float),
                                                         np.array([(hi - lo) / (npts - 1)] * (npts - 1), dtype=object if M.symbolic else float))
    # number of points = round(overlap / coarsest mean step) + 1  <=>  |overlap/step - (npts-1)| <= 1/2
    ratio = (hi - lo) / step
    goals["the step is the one closest to the coarsest mean input step that fits"] = M.conj(M.le(ratio - (npts - 1), 0.5), M.le((npts - 1) - ratio, 0.5))
    if stack is None:
        goals["one output array per input array"] = len(new_arrs) == nd
        for i in range(nd):
            out = np.asarray(new_arrs[i])
            shp = list(np.asarray(arrs[i]).shape); shp[axes[i]] = npts
            goals[f"array {i}: shape has the common domain on its stated axis"] = out.shape == tuple(shp)
            if out.shape != tuple(shp):
                continue
            a_last = np.moveaxis(np.asarray(arrs[i]), axes[i], -1); o_last = np.moveaxis(out, axes[i], -1)
            xs, ya = _sorted_xy(doms[i], a_last, kinds[i])
            spec = np.empty(o_last.shape, dtype=object)
            for idx in np.ndindex(*o_last.shape[:-1]):
                for q in range(npts):
                    spec[idx + (q,)] = _lerp(xs, list(ya[idx]), new_dom[q], fill)
            goals[f"array {i}: linearly interpolated from its own domain along its stated axis"] = M.eq(o_last, spec if M.symbolic else spec.astype(float))
    else:
        out = np.asarray(new_arrs)
        parts = []
        for i in range(nd):
            a_last = np.moveaxis(np.asarray(arrs[i]), axes[i], -1)
            xs, ya = _sorted_xy(doms[i], a_last, kinds[i])
            spec = np.empty(a_last.shape[:-1] + (npts,), dtype=object)
            for idx in np.ndindex(*spec.shape[:-1]):
                for q in range(npts):
                    spec[idx + (q,)] = _lerp(xs, list(ya[idx]), new_dom[q], fill)
            parts.append(np.moveaxis(spec, -1, axes[i]))
        ref = np.concatenate(parts, axis=stack[0]) if stack[1] else np.stack(parts, axis=stack[0])
        goals["stacked / concatenated result"] = out.shape == ref.shape and M.eq(out, ref if M.symbolic else ref.astype(float))
    return goals


def _min(M, xs):
    if M.symbolic:
        return symnp._reduce(symnp.smin, np.array([x if isinstance(x, S) else S(lift(x)) for x in xs], dtype=object), None)
    return min(float(x) for x in xs)


def _max(M, xs):
    if M.symbolic:
        return symnp._reduce(symnp.smax, np.array([x if isinstance(x, S) else S(lift(x)) for x in xs], dtype=object), None)
    return max(float(x) for x in xs)


def _sorted_xy(dom, a_last, kind):
    if kind == "asc":
        return list(np.asarray(dom)), a_last
    if kind == "perm":  # concrete unsorted (zig-zag) domain: the sort order is known
        order = np.argsort(np.asarray(dom, dtype=float), kind="stable")
        return list(np.asarray(dom)[order]), a_last[..., order]
    return list(np.asarray(dom))[::-1], a_last[..., ::-1]


def _mean_step(M, d):
    d = list(np.asarray(d))
    return (_max(M, d) - _min(M, d)) / (len(d) - 1)  # mean of the sorted differences telescopes (domains are monotone)


def _le(M, a, b):
    return M.le(a, b)


def _lt(M, a, b):
    if M.symbolic:
        return SB(lift(a) < lift(b))
    return bool(a < b)


def _or(M, a, b):
    if M.symbolic:
        return SB(z3.Or(symnp._tob(a), symnp._tob(b)))
    return bool(a) or bool(b)


def same_domain_case(M, n):
    from dreye.api.domain import equalize_domains
    d = _domain(M, "d", n, "asc")
    a0 = M.real("a0", (2, n)); a1 = M.real("a1", (n,))
    stubs.INTERP_CALLS.clear()
    nd, out = equalize_domains([d, np.asarray(d).copy()], [a0, a1])
    return {"identical domains: arrays returned unchanged (same objects), no interpolation": (out[0] is a0) and (out[1] is a1) and len(stubs.INTERP_CALLS) == 0 if M.symbolic
            else (out[0] is a0) and (out[1] is a1),
            "identical domains: the domain is returned as is": M.eq(np.asarray(nd), np.asarray(d))}


def capture_case(M, nfd, nsd, kind_s):
    """capture of a signal given on its own domain = trapezoid capture of interpolated signal and interpolated filters on the common grid"""
    from dreye.api.estimator import ReceptorEstimator
    df = _domain(M, "df", nfd, "asc"); ds = _domain(M, "ds", nsd, kind_s, 0.3)
    F = M.real("F", (2, nfd)); Sg = M.real("S", (2, nsd))
    est = ReceptorEstimator(F, domain=df)
    stubs.INTERP_CALLS.clear()
    try:
        out = np.asarray(est.capture(Sg, domain=ds))
    except ValueError as e:
        if "Cannot equalize" not in str(e):
            raise
        lo = _max(M, [_min(M, list(np.asarray(df))), _min(M, list(np.asarray(ds)))]); hi = _min(M, [_max(M, list(np.asarray(df))), _max(M, list(np.asarray(ds)))])
        step = _max(M, [_mean_step(M, df), _mean_step(M, ds)])
        return {"rejected only when the overlap is empty or shorter than the coarsest mean step": _or(M, _le(M, hi, lo), _lt(M, hi - lo, step))}
    M.observe("out", out)
    # reconstruct the common grid from the specification: npts is what the code used (read off by trying the admissible counts)
    lo = _max(M, [_min(M, list(np.asarray(df))), _min(M, list(np.asarray(ds)))]); hi = _min(M, [_max(M, list(np.asarray(df))), _max(M, list(np.asarray(ds)))])
    step = _max(M, [_mean_step(M, df), _mean_step(M, ds)])
    goals = {"shape": out.shape == (2, 2)}
    if not goals["shape"]:
        return goals
    ratio = (hi - lo) / step
    xs_s, Ss = (list(np.asarray(ds)), np.asarray(Sg)) if kind_s == "asc" else (list(np.asarray(ds))[::-1], np.asarray(Sg)[:, ::-1])
    alts = []
    used = [len(q) for c in stubs.INTERP_CALLS for q in c["queries"]] if M.symbolic else []
    for npts in (sorted(set(used)) if used else range(2, 8)):  # symbolic: the number of grid points of this path is read off the interpolation stub
        grid = [lo + (hi - lo) * k / (npts - 1) for k in range(npts)]
        Fi = [[_lerp(list(np.asarray(df)), list(np.asarray(F)[j]), g, 0) for g in grid] for j in range(2)]
        Si = [[_lerp(xs_s, list(Ss[i]), g, 0) for g in grid] for i in range(2)]
        spec = np.array([[_trap(Fi[j], Si[i], grid) for j in range(2)] for i in range(2)], dtype=object)
        cond = M.conj(M.le(ratio - (npts - 1), 0.5), M.le((npts - 1) - ratio, 0.5))
        alts.append(M.conj(cond, M.eq(out, spec if M.symbolic else spec.astype(float))))
    if nfd == nsd:
        # identical domains: no interpolation, the capture is the trapezoid integral on the shared (possibly non-uniform) domain
        direct = np.array([[_trap(list(np.asarray(F)[j]), list(np.asarray(Sg)[i]), list(np.asarray(df))) for j in range(2)] for i in range(2)], dtype=object)
        alts.append(M.conj(M.eq(np.asarray(ds), np.asarray(df)), M.eq(out, direct if M.symbolic else direct.astype(float))))
    goals["capture = trapezoid capture of the interpolated signal and filters on the common grid"] = (
        SB(z3.Or([symnp._tob(a) for a in alts])) if M.symbolic else any(bool(a) for a in alts))
    return goals


def relcap_case(M, nfd, nsd, kind_s):
    """relative capture of a signal given on its own domain = K (capture on that domain + baseline)  (the capture itself is `capture_case`'s subject)"""
    from dreye.api.estimator import ReceptorEstimator
    df = _domain(M, "df", nfd, "asc"); ds = _domain(M, "ds", nsd, kind_s, 0.3)
    F = M.real("F", (2, nfd)); Sg = M.real("S", (2, nsd))
    Kv = M.real("K", (2,), sample=lambda r, s: r.uniform(0.5, 2.0, size=s)); bv = M.real("base", (2,), sample=lambda r, s: r.uniform(0.0, 0.5, size=s))
    est = ReceptorEstimator(F, domain=df, K=Kv, baseline=bv)
    try:
        rel = np.asarray(est.relative_capture(Sg, domain=ds))
        out = np.asarray(est.capture(Sg, domain=ds))
    except ValueError as e:
        if "Cannot equalize" not in str(e):
            raise
        return {"rejected (insufficient overlap: decided in capture_case)": True}
    return {"shape": rel.shape == (2, 2) and out.shape == (2, 2),
            "relative_capture(signals, domain=) = K (capture(signals, domain=) + baseline)": rel.shape == (2, 2) and out.shape == (2, 2) and M.eq(
                rel, np.array([[Kv[j] * (out[i, j] + bv[j]) for j in range(2)] for i in range(2)], dtype=object if M.symbolic else float))}


def cases(tier, seed):
    C = []
    big = tier == "thorough"

    def add(name, body, **kw):
        C.append(dict(name=name, body=body, kwargs=kw, opts=dict(timeout_ms=60000, n_validate=2, max_paths=3000)))
    for kinds in (("asc", "asc"), ("asc", "desc"), ("desc", "asc"), ("desc", "desc")):
        add(f"two domains 3+4 {kinds} rank1", "equalize_case", lens=[3, 4], kinds=list(kinds), shapes=[(3,), (4,)], axes=[0, 0], offsets=[0.0, 0.4])
        add(f"two domains 3+3 {kinds} rank2 axes (-1, 0)", "equalize_case", lens=[3, 3], kinds=list(kinds), shapes=[(2, 3), (3, 2)], axes=[-1, 0], offsets=[0.0, 0.7])
    add("two domains 2+4 rank3 axis 0 and 1", "equalize_case", lens=[2, 4], kinds=["asc", "asc"], shapes=[(2, 2, 3), (2, 4, 2)], axes=[0, 1], offsets=[0.5, 0.0])
    add("two domains 3+3 rank3 axis -3 (equal trailing axes)", "equalize_case", lens=[3, 3], kinds=["asc", "desc"], shapes=[(3, 2, 2), (3, 2, 2)], axes=[-3, 0], offsets=[0.0, 0.3])
    add("three domains 3+3+2", "equalize_case", lens=[3, 3, 2], kinds=["asc", "desc", "asc"], shapes=[(3,), (2, 3), (2,)], axes=[0, 1, 0], offsets=[0.0, 0.3, 0.8])
    add("fill value 7", "equalize_case", lens=[3, 3], kinds=["asc", "asc"], shapes=[(3,), (3,)], axes=[0, 0], fill=7, offsets=[0.0, 0.5])
    add("stack axis 0", "equalize_case", lens=[3, 3], kinds=["asc", "asc"], shapes=[(2, 3), (2, 3)], axes=[-1, -1], stack=(0, False), offsets=[0.0, 0.5])
    add("concatenate axis 0", "equalize_case", lens=[3, 4], kinds=["asc", "desc"], shapes=[(2, 3), (1, 4)], axes=[-1, -1], stack=(0, True), offsets=[0.0, 0.5])
    for nm, cs in (("[0,2,..,10] / [3,6,9,12]", ([0, 2, 4, 6, 8, 10], [3, 6, 9, 12])), ("[300,350,..,700] / [350,550,750]", (list(range(300, 701, 50)), [350, 550, 750])),
                   ("[10,8,..,0] / [1,4,7]", ([10, 8, 6, 4, 2, 0], [1, 4, 7]))):
        add(f"integer-typed domains {nm}", "equalize_case", lens=[len(c) for c in cs], kinds=["asc" if c[0] < c[-1] else "desc" for c in cs],
            shapes=[(len(c),) for c in cs], axes=[0, 0], concrete=[list(c) for c in cs])
    for nm, cs in (("[0,4,2,6,10,8] / [3..9]", ([0, 4, 2, 6, 10, 8], [3, 4, 5, 6, 7, 8, 9])), ("[5,1,3,9,7] / [8,2,4,6]", ([5, 1, 3, 9, 7], [8, 2, 4, 6]))):
        # concrete unsorted (zig-zag) domains: mean step = mean of the SORTED differences; arrays stay symbolic
        add(f"unsorted concrete domains {nm}", "equalize_case", lens=[len(c) for c in cs], kinds=["perm" for c in cs],
            shapes=[(len(c),) for c in cs], axes=[0, 0], concrete=[list(c) for c in cs])
    for ax in (0, 1, -1):
        shp = [(3, 2), (4, 2)] if ax == 0 else [(2, 3), (2, 4)]
        add(f"two domains 3+4 rank2, axes given as the single integer {ax}", "equalize_case", lens=[3, 4], kinds=["asc", "asc"], shapes=shp, axes=[ax, ax], offsets=[0.0, 0.4], scalar_axes=True)
    add("two domains 3+3 square arrays, axes given as the single integer 0", "equalize_case", lens=[3, 3], kinds=["asc", "desc"], shapes=[(3, 3), (3, 3)], axes=[0, 0], offsets=[0.0, 0.3], scalar_axes=True)
    add("identical domains n=3", "same_domain_case", n=3)
    add("estimator capture foreign domain 3+3 asc", "capture_case", nfd=3, nsd=3, kind_s="asc")
    add("estimator capture foreign domain 3+2 desc", "capture_case", nfd=3, nsd=2, kind_s="desc")
    add("estimator relative capture foreign domain 3+3 asc", "relcap_case", nfd=3, nsd=3, kind_s="asc")
    add("estimator relative capture foreign domain 3+2 desc", "relcap_case", nfd=3, nsd=2, kind_s="desc")
    if big:
        add("two domains 5+4 rank1", "equalize_case", lens=[5, 4], kinds=["asc", "asc"], shapes=[(5,), (4,)], axes=[0, 0], offsets=[0.0, 0.4])
    return C
