"""C14 estimator answers depend only on what is currently registered; queries are pure.

Observational formulation.  A history (sequence of registration calls and queries with fresh symbolic arguments) is applied to a real
ReceptorEstimator; a *fresh* estimator is then built directly from the registered values that a dozen-line stateless reference model predicts
for that history.  Both must give term-wise identical observables: relative captures of probe intensities / spectra, the point cloud and the
targets handed to the membership oracle (plain and chromatic), the bound test, and the least-squares problem handed to the solver
(objective and constraints evaluated at a probe competitor) together with the predicted capture.  Every array passed by the caller is compared
element by element before and after each call.
"""
import itertools

import numpy as np
import z3

from vf import fitspec as fs
from vf import harness, stubs, symcp, symnp
from vf.props.c01 import _trap
from vf.symnp import S, SB, lift

META = dict(
    functions=["ReceptorEstimator.__init__", "register_system", "register_bounds", "register_adaptation", "register_baseline", "register_background_adaptation",
               "register_system_adaptation", "register_targets", "register_uncertainty", "fit", "capture", "relative_capture", "system_capture", "system_relative_capture",
               "in_system", "in_hull (plain / normalized)", "range_of_solutions (gate only)", "gamut_l1_scaling", "_get_P_from_A", "_relative_capture", "_check_domain"],
    bounds=dict(quick="2 receptors, 2 sources (3 after re-registration of the system), 3 domain points; all histories of length 1 and 2 over the alphabet "
                      "{register_adaptation (vector), register_baseline, register_bounds, register_background_adaptation (replace / add), register_system_adaptation "
                      "(replace / add), register_system, register_targets, fit() of registered targets, and the queries capture, system_relative_capture, in_hull, "
                      "in_hull(normalized), fit(B), gamut_l1_scaling, gamut_dist_scaling (mutation check only)}, every argument a fresh symbol",
                thorough="histories of length 3 over a reduced alphabet; 3 receptors"),
    stubs=["Delaunay membership contract (the observable is the cloud / targets it is handed)", "cvxpy -> symcp (the observable is the recorded problem)", "normalize -> rows / sum|x|",
           "ConvexHull.equations -> arbitrary facet rows (only reached by gamut_dist_scaling)"],
    assumptions=["real arithmetic", "Q + baseline != 0 where an adaptation divides by it", "ub > lb >= 0"],
    outside=["sampling queries (randomness is stubbed elsewhere)", "histories longer than the bound (the observables are functions of the registered attributes only, "
             "which is what the fresh-estimator comparison checks after every history)"],
)

NF, ND = 2, 3


def patches(case):
    from vf.props import c12
    return fs.fit_patches() + stubs.qhull_patches(("dreye.api.convex",)) + stubs.normalize_patches() + c12.hull_patches()


# ----------------------------------------------------------------------------- alphabet

MUTATORS = ["adapt", "baseline", "bounds", "bounds_lb", "bounds_ub", "bg_adapt", "bg_adapt_add", "sys_adapt", "sys_adapt_add", "system", "targets", "targets_now", "fit_registered"]
QUERIES = ["q_capture", "q_sysrel", "q_inhull", "q_inhull_norm", "q_fit", "q_l1scale", "q_l1scale_abs"]


def _cap(F, grid, spectrum):
    return [_trap(np.asarray(F)[j], spectrum, grid) for j in range(np.asarray(F).shape[0])]


class Ref:
    """stateless reference model: the registered values only"""

    def __init__(self, F, D, K, base, sources, lb, ub):
        self.F, self.D, self.K, self.base, self.sources, self.lb, self.ub = F, D, K, base, sources, lb, ub
        self.targets = None
        self.fitted = False

    def A(self):
        Src = np.asarray(self.sources)
        return np.array([[_trap(np.asarray(self.F)[j], Src[k], self.D) for k in range(Src.shape[0])] for j in range(NF)], dtype=object)


def _copy(a):
    return np.array(a, dtype=object, copy=True) if symnp._has_sym(a) else np.array(a, copy=True)


def _same(M, a, b):
    a = np.asarray(a); b = np.asarray(b)
    if a.shape != b.shape:
        return False
    if not M.symbolic and (a.dtype == bool or b.dtype == bool):
        return bool(np.array_equal(a, b))
    return M.eq(a, b)


def apply_step(M, est, ref, step, idx, goals):
    """apply one step to the real estimator and to the reference model; checks that caller arrays are left untouched"""
    tag = f"step{idx}:{step}"
    nsrc = np.asarray(ref.sources).shape[0]

    def fresh(name, shape, **kw):
        return M.real(f"{name}{idx}", shape, **kw)

    def untouched(name, arr, snap):
        goals[f"{tag}: caller array '{name}' not modified"] = _same(M, arr, snap)
    if step == "adapt":
        K = fresh("K", (NF,), sample=lambda r, s: r.uniform(0.5, 2.0, size=s)); snap = _copy(K)
        for v in K:
            M.assume(v > 0)
        est.register_adaptation(K); ref.K = list(K); untouched("K", K, snap)
    elif step == "baseline":
        b = fresh("base", (NF,), sample=lambda r, s: r.uniform(0.1, 0.5, size=s)); snap = _copy(b)
        for v in b:
            M.assume(v > 0)
        est.register_baseline(b); ref.base = list(b); untouched("baseline", b, snap)
    elif step == "bounds":
        lb = fresh("lb", (nsrc,), sample=lambda r, s: r.uniform(0.0, 0.2, size=s)); ub = fresh("ub", (nsrc,), sample=lambda r, s: r.uniform(1.0, 2.0, size=s))
        for j in range(nsrc):
            M.assume(lb[j] >= 0); M.assume(ub[j] > lb[j])
        s1, s2 = _copy(lb), _copy(ub)
        est.register_bounds(lb, ub); ref.lb, ref.ub = list(lb), list(ub); untouched("lb", lb, s1); untouched("ub", ub, s2)
    elif step == "bounds_lb":
        # only the lower bounds are re-registered: the upper bounds stay as they were
        lb = fresh("lbo", (nsrc,), sample=lambda r, s: r.uniform(0.0, 0.2, size=s))
        for j in range(nsrc):
            M.assume(lb[j] >= 0); M.assume(ref.ub[j] > lb[j])
        s1 = _copy(lb)
        est.register_bounds(lb=lb); ref.lb = list(lb); untouched("lb", lb, s1)
    elif step == "bounds_ub":
        ub = fresh("ubo", (nsrc,), sample=lambda r, s: r.uniform(1.0, 2.0, size=s))
        for j in range(nsrc):
            M.assume(ub[j] > ref.lb[j])
        s2 = _copy(ub)
        est.register_bounds(ub=ub); ref.ub = list(ub); untouched("ub", ub, s2)
    elif step in ("bg_adapt", "bg_adapt_add"):
        bg = fresh("bg", (ND,), sample=lambda r, s: r.uniform(0.2, 1.0, size=s)); snap = _copy(bg)
        for v in bg:
            M.assume(v >= 0)
        q = _cap(ref.F, ref.D, np.asarray(bg))
        qb = [q[j] + ref.base[j] for j in range(NF)]
        for v in qb:
            M.assume(v != 0)
        est.register_background_adaptation(bg, add=(step == "bg_adapt_add"))
        ref.K = [(ref.K[j] if step == "bg_adapt_add" else 0) + 1 / qb[j] for j in range(NF)]
        untouched("background", bg, snap)
    elif step in ("sys_adapt", "sys_adapt_add"):
        x = fresh("xa", (nsrc,), sample=lambda r, s: r.uniform(0.2, 1.0, size=s)); snap = _copy(x)
        for v in x:
            M.assume(v >= 0)
        A = ref.A()
        qb = [fs._sum([A[j, k] * x[k] for k in range(nsrc)]) + ref.base[j] for j in range(NF)]
        for v in qb:
            M.assume(v != 0)
        est.register_system_adaptation(x, add=(step == "sys_adapt_add"))
        ref.K = [(ref.K[j] if step == "sys_adapt_add" else 0) + 1 / qb[j] for j in range(NF)]
        untouched("intensities", x, snap)
    elif step == "system":
        cS2 = np.array([[0.5, 1, 0.25], [2, 0.25, 1], [1, 1, 0.5]])
        src = symnp.const(cS2) if M.symbolic else cS2
        lb = fresh("slb", (3,), sample=lambda r, s: r.uniform(0.0, 0.2, size=s))
        ub = fresh("sub", (3,), sample=lambda r, s: r.uniform(1.0, 2.0, size=s))
        for j in range(3):
            M.assume(lb[j] >= 0); M.assume(ub[j] > lb[j])
        snap = _copy(src)
        est.register_system(src, lb=lb, ub=ub); ref.sources, ref.lb, ref.ub = src, list(lb), list(ub); ref.targets = None if ref.targets is None else ref.targets
        untouched("sources", src, snap)
    elif step == "targets":
        B = fresh("tB", (2, NF), sample=lambda r, s: r.uniform(0.5, 3.0, size=s)); W = fresh("tW", (2, NF), sample=lambda r, s: r.uniform(0.5, 2.0, size=s))
        for v in np.asarray(W).ravel():
            M.assume(v > 0)
        s1, s2 = _copy(B), _copy(W)
        est.register_targets(B, W); ref.targets = (B, W); untouched("targets", B, s1); untouched("weights", W, s2)
    elif step == "targets_now":
        # registering targets WITHOUT weights resets the per-sample weights to the estimator's per-receptor weights
        B = fresh("nB", (2, NF), sample=lambda r, s: r.uniform(0.5, 3.0, size=s)); s1 = _copy(B)
        est.register_targets(B); ref.targets = (B, None); untouched("targets", B, s1)
    elif step == "fit_registered":
        if ref.targets is None:
            B = fresh("tB", (2, NF), sample=lambda r, s: r.uniform(0.5, 3.0, size=s)); est.register_targets(B); ref.targets = (B, None)
        symcp.reset()
        est.fit()
        ref.fitted = True  # est.B now holds the fitted capture (by design of fit() on registered targets)
        # registered values are unchanged by fitting the registered targets (est.B becomes the prediction; the registered target_B stays)
    elif step.startswith("q_"):
        run_query(M, est, ref, step, idx, goals, tag)
    else:
        raise ValueError(step)


def run_query(M, est, ref, step, idx, goals, tag):
    nsrc = np.asarray(ref.sources).shape[0]

    def fresh(name, shape, **kw):
        return M.real(f"{name}{idx}", shape, **kw)

    def untouched(name, arr, snap):
        goals[f"{tag}: caller array '{name}' not modified"] = _same(M, arr, snap)
    if step == "q_capture":
        sig = fresh("sig", (2, ND)); snap = _copy(sig); est.capture(sig); est.relative_capture(sig); untouched("signals", sig, snap)
    elif step == "q_sysrel":
        x = fresh("xq", (2, nsrc)); snap = _copy(x); est.system_relative_capture(x); est.system_capture(x); est.in_system(x); untouched("intensities", x, snap)
    elif step in ("q_inhull", "q_inhull_norm"):
        B = fresh("qB", (2, NF), sample=lambda r, s: r.uniform(0.5, 3.0, size=s)); snap = _copy(B)
        stubs.qhull_reset()
        est.in_hull(B, normalized=(step == "q_inhull_norm")); untouched("targets", B, snap)
    elif step == "q_fit":
        B = fresh("qB", (2, NF), sample=lambda r, s: r.uniform(0.5, 3.0, size=s)); snap = _copy(B)
        symcp.reset(); est.fit(B); untouched("targets", B, snap)
    elif step == "q_l1scale":
        B = fresh("qB", (2, NF), sample=lambda r, s: r.uniform(0.5, 3.0, size=s)); snap = _copy(B)
        M.assume(symnp._reduce(symnp.smax, np.asarray(B - np.asarray(ref.K) * np.asarray(ref.base), dtype=object), None) != 0) if M.symbolic else None
        est.gamut_l1_scaling(B); untouched("targets", B, snap)
    elif step == "q_l1scale_abs":
        # absolute-capture variant (works on the registered A itself rather than on a K-scaled copy)
        B = fresh("qB", (2, NF), sample=lambda r, s: r.uniform(0.5, 3.0, size=s)); snap = _copy(B)
        M.assume(symnp._reduce(symnp.smax, np.asarray(B, dtype=object), None) != 0) if M.symbolic else None
        est.gamut_l1_scaling(B, relative=False); untouched("targets", B, snap)
    elif step == "q_distscale":
        # only the "caller array is not modified" clause is checked for this query (its values are C12's subject); one all-zero row, one arbitrary row
        Bq = fresh("qB", (1, NF), sample=lambda r, s: r.uniform(0.5, 3.0, size=s))
        B = np.vstack([np.asarray(Bq), symnp.const(np.zeros((1, NF))) if M.symbolic else np.zeros((1, NF))])
        B = B.view(symnp.SymArray) if M.symbolic else B
        snap = _copy(B)
        stubs.qhull_reset()
        from vf.props import c12
        c12.hull_reset()
        try:
            est.gamut_dist_scaling(B)
        except AssertionError:
            pass  # neutral point outside the chromatic gamut: a documented precondition
        untouched("targets", B, snap)


def observables(M, est, probes, want_fit=True):
    """what a user can observe from an estimator, as terms over the registered values"""
    xp, sp, Bp, xc = probes
    out = {}
    out["system_relative_capture"] = np.asarray(est.system_relative_capture(xp))
    out["relative_capture"] = np.asarray(est.relative_capture(sp))
    out["in_system"] = np.asarray(est.in_system(xp))
    if M.symbolic:
        stubs.qhull_reset()
        est.in_hull(Bp)
        c = stubs.QHULL_CALLS[-1]
        out["membership: cloud"] = np.asarray(c["P"]); out["membership: targets"] = np.asarray(c["B"])
        stubs.qhull_reset()
        rn = est.in_hull(Bp, normalized=True)
        if stubs.QHULL_CALLS:
            c = stubs.QHULL_CALLS[-1]
            out["chromatic membership: cloud"] = np.asarray(c["P"]); out["chromatic membership: targets"] = np.asarray(c["B"])
        else:
            # dichromats: the verdict itself is an interval test over the registered values
            out["chromatic membership: verdicts"] = z3.And([symnp._tob(v) for v in np.atleast_1d(np.asarray(rn)).ravel()]) if len(np.atleast_1d(np.asarray(rn))) else z3.BoolVal(True)
            out["chromatic membership: verdict row 0"] = symnp._tob(np.atleast_1d(np.asarray(rn)).ravel()[0])
        if want_fit:
            symcp.reset()
            X, Bpred = est.fit(Bp)
            rec = symcp.SOLVES[0]; var = rec["problem"].variables()[0]
            obj_alt, cons_alt = rec["problem"].at({var: np.asarray(xc, dtype=object).view(symnp.SymArray)}, rec["params"])
            out["fit: objective at the probe competitor"] = np.array([obj_alt], dtype=object)
            out["fit: constraints at the probe competitor"] = cons_alt
            # prediction as a function of the solver's answer: substitute the probe competitor for x*
            xs = np.asarray(rec["xstar"][var]).ravel()
            sub = [(lift(xs[j]), lift(np.asarray(xc).ravel()[j])) for j in range(len(xs))]
            out["fit: predicted capture of the first row as a function of the solver's answer"] = np.array(
                [S(z3.substitute(lift(v), *sub)) for v in np.asarray(Bpred)[0]], dtype=object)
    else:
        out["in_hull"] = np.asarray(est.in_hull(Bp))
        out["in_hull(normalized)"] = np.asarray(est.in_hull(Bp, normalized=True))
        # replay aid: chromatic verdicts of a few fixed probe chromaticities spanning the simplex edge (a stale gamut shows up as a shifted interval)
        grid = np.array([[t, 1 - t] for t in np.linspace(0.02, 0.98, 49)]) if NF == 2 else None
        if grid is not None:
            out["in_hull(normalized) on a chromaticity grid"] = np.asarray(est.in_hull(grid, normalized=True))
        if want_fit:
            X, Bpred = est.fit(Bp)
            out["fit: predicted capture"] = np.asarray(Bpred)
    return out


def history_case(M, steps):
    from dreye.api.estimator import ReceptorEstimator
    # filters, domain and source spectra are CONCRETE (exact rationals): this property is about the wiring of the registered values, the capture
    # arithmetic itself is C01/C02; adaptation, baseline, bounds, targets and every call argument stay symbolic
    cF = np.array([[1, 2, 1], [0.5, 1, 3]]); cD = np.array([0.0, 1.0, 2.5]); cS = np.array([[1, 0.5, 0.25], [0.25, 1, 2]])
    F = symnp.const(cF) if M.symbolic else cF
    D = symnp.const(cD) if M.symbolic else cD
    src = symnp.const(cS) if M.symbolic else cS
    K0 = M.real("K", (NF,), sample=lambda r, s: r.uniform(0.5, 2.0, size=s)); b0 = M.real("base", (NF,), sample=lambda r, s: r.uniform(0.1, 0.5, size=s))
    for j in range(NF):
        M.assume(K0[j] > 0); M.assume(b0[j] > 0)
    lb = M.real("lb", (2,), sample=lambda r, s: r.uniform(0.0, 0.2, size=s)); ub = M.real("ub", (2,), sample=lambda r, s: r.uniform(1.0, 2.0, size=s))
    for j in range(2):
        M.assume(lb[j] >= 0); M.assume(ub[j] > lb[j])
    est = ReceptorEstimator(F, domain=D, K=K0, baseline=b0)
    est.register_system(src, lb=lb, ub=ub)
    ref = Ref(F, D, list(K0), list(b0), src, list(lb), list(ub))
    goals = {}
    for idx, step in enumerate(steps):
        apply_step(M, est, ref, step, idx, goals)
    # fresh estimator from the registered values predicted by the reference model
    nsrc = np.asarray(ref.sources).shape[0]
    Kr = np.array(ref.K, dtype=object if M.symbolic else float); br = np.array(ref.base, dtype=object if M.symbolic else float)
    fresh = ReceptorEstimator(F, domain=D, K=Kr, baseline=br)
    fresh.register_system(ref.sources, lb=np.array(ref.lb, dtype=object if M.symbolic else float), ub=np.array(ref.ub, dtype=object if M.symbolic else float))
    if ref.targets is not None:
        if ref.targets[1] is not None:
            fresh.register_targets(ref.targets[0], ref.targets[1])
        else:
            fresh.register_targets(ref.targets[0])
    probes = (M.real("xp", (2, nsrc), sample=lambda r, s: r.uniform(0.0, 1.5, size=s)), M.real("sp", (2, ND), sample=lambda r, s: r.uniform(0.0, 1.0, size=s)),
              M.real("Bp", (2, NF), sample=lambda r, s: r.uniform(0.5, 3.0, size=s)), M.real("xcp", (nsrc,), sample=lambda r, s: r.uniform(0.2, 1.0, size=s)))
    o1 = observables(M, est, probes); o2 = observables(M, fresh, probes)
    if ref.targets is not None and not ref.fitted and M.symbolic:
        # queries without explicit targets use the REGISTERED targets: what in_hull() hands to the membership oracle must be those
        for nm, e_ in (("o1", est), ("o2", fresh)):
            stubs.qhull_reset()
            e_.in_hull()
            c = stubs.QHULL_CALLS[-1]
            (o1 if nm == "o1" else o2)["membership of the registered targets: targets"] = np.asarray(c["B"])
        symcp.reset(); est.fit()  # (on a copy of the state would be cleaner; this is the last use of est)
        rec = symcp.SOLVES[0]; var = rec["problem"].variables()[0]
        o1["fit of the registered targets: objective at the probe competitor"] = np.array([rec["problem"].at({var: np.asarray(probes[3], dtype=object).view(symnp.SymArray)}, rec["params"])[0]], dtype=object)
        symcp.reset(); fresh.fit()
        rec = symcp.SOLVES[0]; var = rec["problem"].variables()[0]
        o2["fit of the registered targets: objective at the probe competitor"] = np.array([rec["problem"].at({var: np.asarray(probes[3], dtype=object).view(symnp.SymArray)}, rec["params"])[0]], dtype=object)
    elif ref.targets is not None and not ref.fitted:
        o1["in_hull() of the registered targets"] = np.asarray(est.in_hull()); o2["in_hull() of the registered targets"] = np.asarray(fresh.in_hull())
        est.fit(); fresh.fit()
        o1["fit: predicted capture of the registered targets"] = np.asarray(est.B); o2["fit: predicted capture of the registered targets"] = np.asarray(fresh.B)
    goals["same observables are available"] = sorted(o1) == sorted(o2)
    for k in sorted(set(o1) & set(o2)):
        a, b = o1[k], o2[k]
        if isinstance(a, z3.BoolRef) or isinstance(b, z3.BoolRef):
            goals[f"after {'+'.join(steps)}: {k} equals that of a fresh estimator with the same registered values"] = SB(a == b)
        elif k == "in_system":
            goals[f"after {'+'.join(steps)}: {k} equals that of a fresh estimator with the same registered values"] = (
                SB(z3.And([symnp._tob(x) == symnp._tob(y) for x, y in zip(np.asarray(a).ravel(), np.asarray(b).ravel())])) if M.symbolic else bool(np.array_equal(a, b)))
        elif not M.symbolic and k.startswith("fit: predicted capture"):
            # two runs of a real solver on the same problem agree only to its accuracy
            goals[f"after {'+'.join(steps)}: {k} equals that of a fresh estimator with the same registered values"] = bool(np.allclose(a, b, atol=2e-2, rtol=1e-2))
        elif not M.symbolic and np.asarray(a).dtype == bool:
            goals[f"after {'+'.join(steps)}: {k} equals that of a fresh estimator with the same registered values"] = bool(np.array_equal(a, b))
        else:
            goals[f"after {'+'.join(steps)}: {k} equals that of a fresh estimator with the same registered values"] = _same(M, a, b)
    if M.symbolic:
        A = np.asarray(est.A)
        goals["representation invariant: A = capture(sources)^T"] = A.shape == (NF, nsrc) and M.eq(A, ref.A())
    return goals


def distscale_purity_case(M, zero_row):
    """gamut_dist_scaling must not write into the caller's array (its values are C12's subject).  Concrete system; symbolic targets."""
    from dreye.api.estimator import ReceptorEstimator
    from vf.props import c12
    cF = np.array([[1, 2, 1, 0.5], [0.5, 1, 3, 1], [2, 0.5, 1, 1]]); cS = np.array([[1, 0.5, 0.25, 0.1], [0.25, 1, 2, 0.3], [0.2, 0.3, 0.5, 2]])
    est = ReceptorEstimator(symnp.const(cF) if M.symbolic else cF, domain=1.0, K=np.array([1.0, 0.5, 2.0]), baseline=np.array([0.1, 0.2, 0.1]))
    est.register_system(symnp.const(cS) if M.symbolic else cS, lb=np.zeros(3), ub=np.ones(3))
    Bq = M.real("qB", (1, 3), sample=lambda r, s: r.uniform(0.5, 3.0, size=s) * np.array([1.0, 0.05, 0.05]))
    for v in np.asarray(Bq).ravel():
        M.assume(v > 0)
    rows = [np.asarray(Bq)]
    if zero_row:
        rows.append(symnp.const(np.zeros((1, 3))) if M.symbolic else np.zeros((1, 3)))
    B = np.vstack(rows)
    B = B.view(symnp.SymArray) if M.symbolic else B
    snap = _copy(B)
    stubs.qhull_reset(); c12.hull_reset()
    try:
        est.gamut_dist_scaling(B)
    except AssertionError:
        pass
    return {"gamut_dist_scaling: caller array not modified": _same(M, B, snap)}


def query_purity_case(M, query):
    """a query with explicit arguments must not change what later queries WITHOUT arguments (registered targets) see"""
    from dreye.api.estimator import ReceptorEstimator
    cF = np.array([[1, 2, 1], [0.5, 1, 3]]); cD = np.array([0.0, 1.0, 2.5]); cS = np.array([[1, 0.5, 0.25], [0.25, 1, 2]])
    K0 = M.real("K", (NF,), sample=lambda r, s: r.uniform(0.5, 2.0, size=s)); b0 = M.real("base", (NF,), sample=lambda r, s: r.uniform(0.1, 0.5, size=s))
    for j in range(NF):
        M.assume(K0[j] > 0); M.assume(b0[j] > 0)
    est = ReceptorEstimator(symnp.const(cF) if M.symbolic else cF, domain=(symnp.const(cD) if M.symbolic else cD), K=K0, baseline=b0)
    est.register_system(symnp.const(cS) if M.symbolic else cS, lb=np.zeros(2), ub=np.ones(2) * 2)
    T = M.real("T", (2, NF), sample=lambda r, s: r.uniform(0.5, 3.0, size=s) * np.array([[1.0, 1.0], [9.0, 0.1]]))
    Wt = M.real("Wt", (2, NF), sample=lambda r, s: r.uniform(0.5, 2.0, size=s))
    for v in np.asarray(Wt).ravel():
        M.assume(v > 0)
    Bq = M.real("Bq", (2, NF), sample=lambda r, s: r.uniform(0.5, 2.0, size=s))
    est.register_targets(T, Wt)

    def view():
        if M.symbolic:
            stubs.qhull_reset(); est.in_hull()
            return np.asarray(stubs.QHULL_CALLS[-1]["B"])
        return np.asarray(est.in_hull())
    before = view()
    regB = np.array(est.B, dtype=object if M.symbolic else float, copy=True); regW = np.array(est.W, dtype=object if M.symbolic else float, copy=True)
    symcp.reset()
    if query == "fit":
        est.fit(Bq)
    elif query == "fit_poisson":
        est.fit(np.abs(Bq) if not M.symbolic else Bq, model="poisson") if not M.symbolic else est.fit(Bq, model="gaussian", batch_size=2)
    elif query == "in_hull":
        stubs.qhull_reset(); est.in_hull(Bq); est.in_hull(Bq, normalized=True)
    elif query == "l1scale":
        est.gamut_l1_scaling(Bq)
    elif query == "l1scale_abs":
        est.gamut_l1_scaling(Bq, relative=False)
    after = view()
    return {"in_hull() of the registered targets is unchanged by the query": _same(M, after, before),
            "the registered targets and weights are unchanged by the query": M.conj(_same(M, est.B, regB), _same(M, est.W, regW)),
            "registered_targets stays as it was": bool(est.registered_targets)}


def cases(tier, seed):
    C = []
    big = tier == "thorough"
    for q in ("fit", "fit_poisson", "in_hull", "l1scale", "l1scale_abs"):
        C.append(dict(name=f"query purity w.r.t. registered targets: {q}", body="query_purity_case", kwargs=dict(query=q), opts=dict(timeout_ms=30000, n_validate=2, max_paths=64)))
    for z in (True, False):
        C.append(dict(name=f"purity of gamut_dist_scaling (zero row: {z})", body="distscale_purity_case", kwargs=dict(zero_row=z), opts=dict(timeout_ms=30000, n_validate=4, max_paths=2000, skip_sym=True, algebraic=True)))  # every branch of this function divides by symbolic chromaticity
    # sums: path exploration does not terminate in minutes; the clause is exercised in exact rational arithmetic on sampled targets only (stated)
    alpha = MUTATORS + QUERIES
    if big:
        hist = [(a,) for a in alpha] + list(itertools.product(alpha, repeat=2))
    else:
        # quick: all single steps, every (mutator, mutator) pair, and every query sandwiched with every mutator in both orders
        red = ["adapt", "baseline", "bounds", "bg_adapt", "sys_adapt_add", "system", "targets", "targets_now", "fit_registered"]
        hist = [(a,) for a in alpha] + list(itertools.product(red, repeat=2)) + [("bg_adapt_add", "sys_adapt"), ("sys_adapt", "bg_adapt_add")] + \
               [(q, m_) for q in QUERIES for m_ in ("adapt", "bg_adapt", "sys_adapt_add", "bounds", "system")] + \
               [(m_, q) for q in QUERIES for m_ in ("baseline", "sys_adapt", "targets")] + \
               [("targets", "q_fit", "adapt"), ("targets", "q_inhull"), ("targets", "targets_now", "q_fit"), ("bounds", "q_l1scale_abs"), ("bounds", "q_l1scale_abs", "q_sysrel"),
                ("bounds", "bounds_lb"), ("bounds", "bounds_ub"), ("bounds_lb", "bounds_ub"), ("bounds_ub", "bounds_lb"), ("bounds_lb", "q_inhull"), ("bounds_ub", "q_fit")]
    if big:
        small = ["adapt", "bg_adapt_add", "sys_adapt", "system", "q_inhull_norm", "q_fit"]
        hist += list(itertools.product(small, repeat=3))
    for h in hist:
        C.append(dict(name="history " + " > ".join(h), body="history_case", kwargs=dict(steps=list(h)), opts=dict(timeout_ms=60000, n_validate=1, max_paths=64)))
    return C
