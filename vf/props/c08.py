"""C08 underdetermined fits reproduce the target and optimise the chosen secondary goal."""
import numpy as np
import z3

from vf import fitspec as fs
from vf import symcp, symnp
from vf.symnp import S, SB

META = dict(
    functions=["dreye.api.optimize.lsq_linear.lsq_linear_underdetermined", "_get_underdetermined_objective", "_prepare_parameters", "_prepare_variables",
               "_solve_problem", "ReceptorEstimator.fit_underdetermined", "ReceptorEstimator.underdetermined"],
    bounds=dict(quick="(receptors x sources) (2,3),(2,4),(3,4); one or two target rows; options 'l2' (default), 'min', 'max', 'var', number, vector; "
                      "K none / vector / matrix, baseline vector, per-sample weights, symbolic 0 <= lb <= ub, symbolic l2_eps >= 0",
                thorough="adds (3,5),(4,5),(4,7)"),
    stubs=["cvxpy -> symcp (contract stub)", "norm2 / scipy norm -> exact sqrt symbol"],
    assumptions=["real arithmetic", "weights > 0", "the back end returns a global optimum of the problem it is handed"],
    outside=["solver accuracy on the second-order-cone constraint"],
)


def patches(case):
    return fs.fit_patches()


def _sqrt(M, v):
    if M.symbolic:
        return (v if isinstance(v, S) else S(symnp.lift(v))).sqrt()
    return float(np.sqrt(max(float(v), 0.0)))


def secondary(M, opt, x, optval):
    """documented secondary goal (smaller is better)"""
    n = len(x)
    tot = fs._sum(list(x))
    if opt in ("l2", None):
        return _sqrt(M, fs._sum([v * v for v in x]))
    if opt == "min":
        return tot
    if opt == "max":
        return -tot
    if opt == "var":
        mean = tot / n
        return fs._sum([(v - mean) * (v - mean) for v in x])
    if opt == "number":
        return (tot - optval) * (tot - optval)
    if opt == "vector":
        return fs._sum([(x[j] - optval[j]) * (x[j] - optval[j]) for j in range(n)])
    raise ValueError(opt)


def underdet_case(M, m, n, rows, kkind, opt, via="function", lbkind="pos", warmup=False, np_scalar=False):
    from dreye.api.optimize.lsq_linear import lsq_linear_underdetermined
    A, K, base, lb, ub, lbl, ubl = fs.mk_system(M, m, n, kkind, "vec", lbkind, "fin")
    W = M.real("W", (rows, m), sample=lambda r, s: r.uniform(0.5, 2.0, size=s))
    for v in np.asarray(W).ravel():
        M.assume(v > 0)

    def _b_sample(r, s):
        v = M.values
        xt = v["lb"] + r.uniform(0.2, 0.8, size=(rows, n)) * (v["ub"] - v["lb"])
        Ae, be = fs.effective_model(v["A"], v.get("K"), v.get("base"), kkind)
        return np.array([fs.predict(Ae, be, list(xt[i])) for i in range(rows)], dtype=float)
    B = M.real("B", (rows, m), sample=_b_sample)  # concrete modes: in-gamut targets (the property's precondition)
    l2_eps = M.real("l2eps", (), sample=lambda r, s: r.uniform(1e-3, 1e-2))
    M.assume(l2_eps >= 0)
    optval = None
    if opt == "number":
        optval = M.real("optnum", (), sample=lambda r, s: r.uniform(0.5, 3.0))
    elif opt == "vector":
        optval = M.real("optvec", (n,), sample=lambda r, s: r.uniform(0.0, 2.0, size=s))
    xc = M.real("xc", (rows, n), sample=lambda r, s: r.uniform(0.3, 1.0, size=s))
    arg = {"l2": "l2", None: None, "min": "min", "max": "max", "var": "var", "number": optval, "vector": optval}[opt]
    if np_scalar and not M.symbolic:
        arg = np.float64(arg)  # the requested total held in a numpy scalar (e.g. the mean of an array) -- typing is visible to the run of the real code only
    if warmup and via == "function":
        # an earlier call on the same system and option with a much looser tolerance must not influence this one
        lsq_linear_underdetermined(A, B, lb=lb, ub=ub, W=W, K=K, baseline=base, l2_eps=l2_eps + 0.5, underdetermined_opt=arg, return_pred=True)
    symcp.reset()
    if via == "function":
        X, Bp = lsq_linear_underdetermined(A, B, lb=lb, ub=ub, W=W, K=K, baseline=base, l2_eps=l2_eps, underdetermined_opt=arg, return_pred=True)
    else:
        from dreye.api.estimator import ReceptorEstimator
        kw = {}
        if K is not None:
            kw["K"] = K
        est = ReceptorEstimator(np.ones((m, 2)), baseline=base, **kw)
        est.A = A; est.Epsilon = "heteroscedastic"; est.lb = lb; est.ub = ub
        est.register_targets(B, W)
        X, Bp = est.fit_underdetermined(B, underdetermined_opt=arg, l2_eps=l2_eps)
    X = np.asarray(X); Bp = np.asarray(Bp)
    Aeff, beff = fs.effective_model(A, K, base, kkind)
    goals = {"shapes": X.shape == (rows, n) and Bp.shape == (rows, m)}
    if not goals["shapes"]:
        return goals
    solves = list(symcp.SOLVES)
    if M.symbolic:
        goals["one solve per row"] = len(solves) == rows
    for i in range(rows):
        w = fs.weights(W, i, m)
        xi = list(X[i]); ci = list(xc[i]); bi = list(np.asarray(B)[i])
        goals[f"row{i}: prediction = K(A X + baseline)"] = M.eq(Bp[i], np.array(fs.predict(Aeff, beff, xi), dtype=object if M.symbolic else float))
        e_x = _sqrt(M, fs.sq_error(Aeff, beff, w, bi, xi))
        e_c = _sqrt(M, fs.sq_error(Aeff, beff, w, bi, ci))
        g_x = secondary(M, opt, xi, optval); g_c = secondary(M, opt, ci, optval)
        if M.symbolic:
            goals[f"row{i}: bounds respected"] = fs.in_bounds(M, xi, lbl, ubl)
            goals[f"row{i}: target reproduced within the requested tolerance"] = M.le(e_x, l2_eps)
            if len(solves) != rows:
                continue
            rec = solves[i]
            var = rec["problem"].variables()[0]
            inst, obj_alt, cons_alt = symcp.optimality_instance(rec, fs.row_block_alt(rec, var, 0, n, ci))
            c_feas = M.conj(fs.in_bounds(M, ci, lbl, ubl), M.le(e_c, l2_eps))
            goals[f"row{i}: optimal secondary goal '{opt}' among all in-bound intensities reproducing the target"] = (M.implies(c_feas, M.le(g_x, g_c)), [inst])
            goals[f"row{i}: solver problem feasible whenever some in-bound intensities reproduce the target within tolerance"] = (
                M.implies(c_feas, SB(cons_alt)), [], dict(pc_upto=rec["pc_before"]))
        else:
            rng_ = max(1e-9, float(np.max(np.array(ubl) - np.array(lbl))))
            goals[f"row{i}: bounds respected"] = bool(np.all(np.array(xi) >= np.array(lbl) - 0.01 * rng_) and np.all(np.array(xi) <= np.array(ubl) + 0.01 * rng_))
            goals[f"row{i}: target reproduced within the requested tolerance"] = bool(float(e_x) <= float(l2_eps) + 2e-2 * max(1.0, float(np.max(w))))
            g_o = secondary_oracle(opt, optval, Aeff, beff, bi, lbl, ubl)
            c_feas = bool(fs.in_bounds(M, ci, lbl, ubl)) and float(e_c) <= float(l2_eps)
            best = min(g_o, float(g_c) if c_feas else np.inf)
            goals[f"row{i}: optimal secondary goal '{opt}' among all in-bound intensities reproducing the target"] = bool(float(g_x) <= best + 2e-2 * (1 + abs(best)))
    return goals


def secondary_oracle(opt, optval, Aeff, beff, b, lb, ub):
    """independent numeric optimum of the secondary goal over {lb <= x <= ub, Aeff x + beff = b} (exact reproduction; float mode only)"""
    from scipy.optimize import linprog, minimize
    Ae = np.array(Aeff, dtype=float); be = np.array(beff, dtype=float); b = np.array(b, dtype=float)
    n = Ae.shape[1]
    bounds = list(zip(np.array(lb, dtype=float), np.array(ub, dtype=float)))
    if opt in ("min", "max"):
        c = np.ones(n) if opt == "min" else -np.ones(n)
        r = linprog(c, A_eq=Ae, b_eq=b - be, bounds=bounds, method="highs")
        return float(r.fun) if r.status == 0 else np.inf

    def g(x):
        tot = x.sum()
        if opt in ("l2", None):
            return float(np.sqrt(np.sum(x * x)))
        if opt == "var":
            return float(np.sum((x - tot / n) ** 2))
        if opt == "number":
            return float((tot - optval) ** 2)
        return float(np.sum((x - np.asarray(optval, dtype=float)) ** 2))
    r0 = linprog(np.zeros(n), A_eq=Ae, b_eq=b - be, bounds=bounds, method="highs")
    if r0.status != 0:
        return np.inf
    best = np.inf
    for x0 in (r0.x, np.clip(np.linalg.lstsq(Ae, b - be, rcond=None)[0], *np.array(bounds).T)):
        r = minimize(g, x0, bounds=bounds, constraints=[dict(type="eq", fun=lambda x: Ae @ x + be - b)], method="SLSQP", options=dict(ftol=1e-12, maxiter=500))
        if r.success or np.max(np.abs(Ae @ r.x + be - b)) < 1e-6:
            best = min(best, float(r.fun))
    return best


def guard_case(M, which):
    """documented preconditions are enforced: batch_size must be 1, the system must be underdetermined"""
    from dreye.api.optimize.lsq_linear import lsq_linear_underdetermined
    if which == "batch":
        A = M.real("A", (2, 3)); B = M.real("B", (2, 2))
        try:
            lsq_linear_underdetermined(A, B, lb=np.zeros(3), ub=np.ones(3), batch_size=2)
            return {"batch_size != 1 rejected": False}
        except AssertionError:
            return {"batch_size != 1 rejected": True}
    A = M.real("A", (2, 2)); B = M.real("B", (1, 2))
    try:
        lsq_linear_underdetermined(A, B, lb=np.zeros(2), ub=np.ones(2))
        return {"not underdetermined rejected": False}
    except AssertionError:
        return {"not underdetermined rejected": True}


def cases(tier, seed):
    C = []
    big = tier == "thorough"

    def add(name, **kw):
        C.append(dict(name=name, body="underdet_case", kwargs=kw, opts=dict(timeout_ms=60000, n_validate=1)))
    for opt in ("l2", None, "min", "max", "var", "number", "vector"):
        for kkind in ("none", "vec", "mat"):
            add(f"2x3 opt={opt} K={kkind}", m=2, n=3, rows=1, kkind=kkind, opt=opt)
        add(f"2x4 opt={opt} K=vec rows=2", m=2, n=4, rows=2, kkind="vec", opt=opt)
        add(f"3x4 opt={opt} K=vec", m=3, n=4, rows=1, kkind="vec", opt=opt)
        add(f"estimator.fit_underdetermined 2x3 opt={opt}", m=2, n=3, rows=1, kkind="vec", opt=opt, via="estimator")
        if big:
            for (m, n) in ((3, 5), (4, 5), (4, 7)):
                add(f"{m}x{n} opt={opt} K=vec", m=m, n=n, rows=1, kkind="vec", opt=opt)
    for opt in ("max", "min", "l2"):
        add(f"2x3 opt={opt} K=vec after an earlier call with a looser tolerance", m=2, n=3, rows=1, kkind="vec", opt=opt, warmup=True)
        # (a cache inside the library keyed on the arrays' bytes is only hit by the real code's float arrays: the run of the real code decides)
        C[-1]["opts"].update(n_validate=3, float_strict=True)
    # the option typed as a numpy scalar: the clause about the requested total is decided by the run of the real code (typing is invisible to real arithmetic)
    add("2x3 opt=number K=vec, the number held in a numpy scalar", m=2, n=3, rows=1, kkind="vec", opt="number", np_scalar=True)
    C[-1]["opts"].update(float_strict=True, n_validate=4)
    C.append(dict(name="guard batch_size", body="guard_case", kwargs=dict(which="batch"), opts=dict(n_validate=1)))
    C.append(dict(name="guard underdetermined", body="guard_case", kwargs=dict(which="square"), opts=dict(n_validate=1)))
    return C
