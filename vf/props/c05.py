"""C05 samples are fitted independently; the batch size never changes or breaks a result."""
import numpy as np

from vf import fitspec as fs
from vf import symcp, symnp
from vf.symnp import S, SB

META = dict(
    functions=["dreye.api.optimize.parallel.batched_iteration", "ravel_iarrays", "ravel_last_iarrays", "batch_arrays", "diagonal_stack", "concat",
               "dreye.api.optimize.lsq_linear._solve_problem", "_prepare_variables", "_prepare_parameters", "lsq_linear (gaussian, poisson)",
               "lsq_linear_excitation", "lsq_linear_minimize (batched tail loop)", "dreye.api.optimize.utils.get_batch_size"],
    bounds=dict(quick="exhaustive size grid: n_samples 1..4 x batch_size in {1..6, 'full'} for gaussian / poisson / excitation / variance minimisation, "
                      "2 receptors x 2 sources, vector K, vector baseline, per-sample weights, symbolic lb >= 0 and ub; contents symbolic",
                thorough="n_samples 1..6 x batch_size {1..8,'full'}; plus (2 x 3) and (3 x 2) systems on the 1..4 grid"),
    stubs=["cvxpy -> symcp (solve() = contract stub, see C04)", "scipy.linalg.block_diag -> exact block placement", "natural log -> uninterpreted function"],
    assumptions=["real arithmetic", "weights > 0, lb <= ub, A, targets, baseline >= 0 and K > 0 for poisson/excitation (their DCP domain)",
                 "the back end returns a global optimum of the stacked problem it is handed"],
    outside=["equality of intensities across batch sizes where the optimum is not unique", "numerical cross-talk between blocks inside a real solver"],
)


def patches(case):
    return fs.fit_patches()


def batch_case(M, model, m, n, rows, batch, kkind="vec", bkind="vec", wkind="mat", witness_f14=False, layout="C"):
    A, K, base, lb, ub, lbl, ubl = fs.mk_system(M, m, n, kkind, bkind, "pos", "fin")
    B = M.real("B", (rows, m), sample=lambda r, s: r.uniform(0.5, 3.0, size=s))
    W = {"none": lambda: None, "mat": lambda: M.real("W", (rows, m), sample=lambda r, s: r.uniform(0.5, 2.0, size=s))}[wkind]()
    if W is not None:
        for v in np.asarray(W).ravel():
            M.assume(v > 0)
    if model != "gaussian":
        fs.assume_nonneg_system(M, A, K, base, B, kkind)
    xc = M.real("xc", (rows, n), sample=lambda r, s: r.uniform(0.3, 1.0, size=s))
    symcp.reset()
    if layout == "F":
        # memory layout of the caller's arrays must not matter (Fortran-ordered / transposed views)
        Bc = np.asfortranarray(np.asarray(B)); Wc = None if W is None else np.asfortranarray(np.asarray(W))
        if M.symbolic:
            Bc = Bc.view(symnp.SymArray); Wc = None if Wc is None else Wc.view(symnp.SymArray)
        X, Bp = fs.call_model(model, A, Bc, lb, ub, Wc, K, base, batch)
    else:
        X, Bp = fs.call_model(model, A, B, lb, ub, W, K, base, batch)
    X = np.asarray(X); Bp = np.asarray(Bp)
    Aeff, beff = fs.effective_model(A, K, base, kkind)
    goals = {"shapes": X.shape == (rows, n) and Bp.shape == (rows, m)}
    if not goals["shapes"]:
        return goals
    bs = rows if batch == "full" else int(batch)
    n_solves = -(-rows // bs)
    solves = list(symcp.SOLVES)
    if M.symbolic:
        goals["number of solves = ceil(n/batch)"] = len(solves) == n_solves
        if rows % bs:
            M.tag("padded-last-batch")
        if bs > rows:
            M.tag("batch>n")
    for i in range(rows):
        w = fs.weights(W, i, m)
        xi = list(X[i]); ci = list(xc[i]); bi = list(np.asarray(B)[i])
        goals[f"row{i}: prediction = K(A X + baseline)"] = M.eq(Bp[i], np.array(fs.predict(Aeff, beff, xi), dtype=object if M.symbolic else float))
        f_x = fs.model_objective(M, model, Aeff, beff, w, bi, xi)
        f_c = fs.model_objective(M, model, Aeff, beff, w, bi, ci)
        c_ok = M.conj(fs.in_bounds(M, ci, lbl, ubl), fs.model_domain(M, model, Aeff, beff, ci))
        if M.symbolic:
            goals[f"row{i}: bounds respected"] = fs.in_bounds(M, xi, lbl, ubl)
            if len(solves) == n_solves:
                k, r = divmod(i, bs)
                rec = solves[k]
                var = rec["problem"].variables()[0]
                # scatter: result row i is block r of the solution of batch k
                blk = np.asarray(rec["xstar"][var]).reshape(-1)[r * n:(r + 1) * n]
                goals[f"row{i}: result row is its own block of the stacked solution"] = (len(blk) == n) and M.eq(X[i], blk)
                rows_in_solve = min(bs, rows - k * bs)
                if model == "excitation" and rows_in_solve > 1 and not witness_f14:
                    continue  # known finding F14 (see below): per-row optimality is not claimed here; the batch-level statement is checked instead
                inst, obj_alt, cons_alt = symcp.optimality_instance(rec, fs.row_block_alt(rec, var, r, n, ci))
                goals[f"row{i}: optimal for its own target and weights (independent of the other rows in the batch)"] = (M.implies(c_ok, M.le(f_x, f_c)), [inst])
        else:
            rng_ = max(1e-9, float(np.max(np.array(ubl) - np.array(lbl))))
            goals[f"row{i}: bounds respected"] = bool(np.all(np.array(xi) >= np.array(lbl) - 0.01 * rng_) and np.all(np.array(xi) <= np.array(ubl) + 0.01 * rng_))
            if model == "gaussian":
                xo = fs.scipy_bvls(Aeff, beff, w, bi, lbl, ubl)
                f_o = fs.sq_error(Aeff, beff, w, bi, list(xo))
                best = min(float(f_o), float(f_c) if c_ok else np.inf)
                goals[f"row{i}: optimal for its own target and weights (independent of the other rows in the batch)"] = bool(np.sqrt(float(f_x)) <= np.sqrt(best) + 2e-2 * max(1.0, float(np.max(w))))
            elif model == "excitation":
                t_o = fs.excitation_oracle(Aeff, beff, w, bi, lbl, ubl)
                best = min(t_o, float(f_c) if c_ok else np.inf)
                goals[f"row{i}: optimal for its own target and weights (independent of the other rows in the batch)"] = bool(float(f_x) <= best + 5e-3)
            elif c_ok:
                goals[f"row{i}: optimal for its own target and weights (independent of the other rows in the batch)"] = bool(float(f_x) <= float(f_c) + 2e-2 * max(1.0, float(np.max(w))))
    if model == "excitation":
        goals["excitation: |u-v|/((1+u)(1+v)) = |e(u)-e(v)| for u,v >= 0 (lemma behind the objective form)"] = fs.excitation_lemma(M)
        for i in range(rows):
            for nm, pt in (("returned", list(X[i])), ("competitor", list(xc[i]))):
                ok = fs.in_bounds(M, pt, lbl, ubl)
                goals[f"row{i}: excitation arguments non-negative at the {nm} intensities"] = M.implies(ok, fs.excitation_nonneg(M, Aeff, beff, fs.weights(W, i, m), list(np.asarray(B)[i]), pt))
    if M.symbolic and len(solves) == n_solves and model == "excitation":
        # what the excitation formulation does guarantee for a batch: the largest error over the rows of the batch is minimal
        for k, rec in enumerate(solves):
            idx = [i for i in range(k * bs, min(rows, (k + 1) * bs))]
            if len(idx) < 2:
                continue
            var = rec["problem"].variables()[0]
            alt = np.array(rec["xstar"][var]).copy().reshape(-1)
            oks, fxs, fcs = [], [], []
            for i in idx:
                r = i - k * bs
                alt[r * n:(r + 1) * n] = list(xc[i])
                w = fs.weights(W, i, m); bi = list(np.asarray(B)[i])
                oks.append(fs.in_bounds(M, list(xc[i]), lbl, ubl))
                fxs.append(fs.model_objective(M, model, Aeff, beff, w, bi, list(X[i])))
                fcs.append(fs.model_objective(M, model, Aeff, beff, w, bi, list(xc[i])))
            inst, _, _ = symcp.optimality_instance(rec, {var: alt.reshape(np.asarray(rec["xstar"][var]).shape).view(symnp.SymArray)})
            # padded rows contribute the constant 0 to the solver's max; the per-row errors are >= 0 (separate goals below), so max(0, .) changes nothing
            goals[f"batch{k}: excitation minimises the largest error over the rows of the batch"] = (M.implies(M.conj(*oks), M.le(fs._max(M, [0] + fxs), fs._max(M, [0] + fcs))), [inst])
            for i, fx_, fc_, ok_ in zip(idx, fxs, fcs, oks):
                # stated for non-negative intensities (which "bounds respected" and lb >= 0 give)
                goals[f"row{i}: excitation error is non-negative at the returned intensities"] = M.implies(M.le(0, np.array(list(X[i]), dtype=object)), M.le(0, fx_))
                goals[f"row{i}: excitation error is non-negative at the competitor"] = M.implies(M.le(0, np.array(list(xc[i]), dtype=object)), M.le(0, fc_))
    if M.symbolic and len(solves) == n_solves:
        # the stacked problem must be feasible whenever every row's own problem is (padded rows included)
        for k, rec in enumerate(solves):
            var = rec["problem"].variables()[0]
            alt = np.array(rec["xstar"][var]).copy().reshape(-1)
            oks = []
            for r in range(bs):
                i = k * bs + r
                src = list(xc[i]) if i < rows else list(xc[k * bs])  # witness for a padded block: the competitor of the batch's first row
                alt[r * n:(r + 1) * n] = src
                if i < rows:
                    oks.append(M.conj(fs.in_bounds(M, list(xc[i]), lbl, ubl), fs.model_domain(M, model, Aeff, beff, list(xc[i]))))
            _, cons_alt = rec["problem"].at({var: alt.reshape(np.asarray(rec["xstar"][var]).shape)}, rec["params"])
            goals[f"batch{k}: stacked problem feasible whenever each row's problem is"] = (M.implies(M.conj(*oks), SB(cons_alt)), [], dict(pc_upto=rec["pc_before"]))
    return goals


def minimize_batch_case(M, **kw):
    """variance minimisation on the batch grid: per-row clauses of C09 (scatter, per-row fit quality and optimality, feasibility of the padded problem)"""
    from vf.props import c09
    return c09.minimize_case(M, **kw)


def cases(tier, seed):
    C = []
    big = tier == "thorough"
    N = 6 if big else 4
    for model in ("gaussian", "poisson", "excitation"):
        for rows in range(1, N + 1):
            for batch in list(range(1, N + 3)) + ["full"]:
                tags = []
                bs = rows if batch == "full" else batch
                if rows % bs:
                    tags.append("padded-last-batch")
                if bs > rows:
                    tags.append("batch>n")
                kw = dict(model=model, m=2, n=2, rows=rows, batch=batch)
                if model == "excitation" and (rows, batch) in ((2, 2), (3, 2)):
                    kw["witness_f14"] = True  # keep the per-row clause on two representative cases so that F14 stays witnessed
                C.append(dict(name=f"{model} n={rows} batch={batch} 2x2", body="batch_case", expect_tags=tags,
                              kwargs=kw, opts=dict(timeout_ms=60000, n_validate=1)))
    for model in ("gaussian", "poisson"):
        for rows, batch in ((2, 2), (3, 2), (2, "full"), (1, 3)):
            C.append(dict(name=f"{model} n={rows} batch={batch} 2x2 Fortran-ordered targets and weights", body="batch_case",
                          kwargs=dict(model=model, m=2, n=2, rows=rows, batch=batch, layout="F"), opts=dict(timeout_ms=60000, n_validate=1)))
    Nm = 4 if big else 3
    for rows in range(1, Nm + 1):
        for batch in list(range(1, Nm + 3)) + ["full"]:
            tags = []
            bs = rows if batch == "full" else batch
            if rows % bs:
                tags.append("padded-last-batch")
            if bs > rows:
                tags.append("batch>n")
            for l1kind in (("none", "scalar") if (rows, batch) in ((1, 2), (3, 2), (2, 2)) else ("none",)):
                C.append(dict(name=f"minimize n={rows} batch={batch} 2x2 L1={l1kind}", body="minimize_batch_case", expect_tags=tags,
                              kwargs=dict(m=2, n=2, rows=rows, batch=batch, kkind="vec", bkind="vec", epskind="explicit", l1kind=l1kind),
                              opts=dict(timeout_ms=60000, n_validate=1)))
    if big:
        for model in ("gaussian", "poisson"):
            for (m, n) in ((2, 3), (3, 2)):
                for rows in range(1, 5):
                    for batch in list(range(1, 7)) + ["full"]:
                        C.append(dict(name=f"{model} n={rows} batch={batch} {m}x{n}", body="batch_case",
                                      kwargs=dict(model=model, m=m, n=n, rows=rows, batch=batch), opts=dict(timeout_ms=60000, n_validate=0)))
    return C
