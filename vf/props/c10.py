"""C10 adaptive fit scales intensity and chroma uniformly and stays inside the gamut."""
import numpy as np
import z3

from vf import fitspec as fs
from vf import symcp, symnp
from vf.symnp import S, SB

META = dict(
    functions=["dreye.api.optimize.lsq_linear.lsq_linear_adaptive", "dreye.api.optimize.utils.prepare_parameters_for_linear", "dreye.api.utils.predict_values",
               "ReceptorEstimator.fit_adaptive"],
    bounds=dict(quick="(receptors x sources) (2,2),(3,3),(2,3); 1-3 samples; neutral point default / given; objectives 'unity', 'max', None, unknown name; "
                      "scale weights scalar / pair; symbolic deltas > 0; K none / vector / matrix, baseline vector; symbolic 0 <= lb <= ub",
                thorough="adds (3,4),(4,6) and 4 samples (the property's 1-50 samples: rows enter the formulation uniformly; stated, not proved)"),
    stubs=["cvxpy -> symcp (contract stub; Variable(pos=True) modelled as >= 0)"],
    assumptions=["real arithmetic", "deltas > 0", "neutral point with non-zero sum", "scale weights non-zero for the 'scales are (1,1)' clause",
                 "the back end returns a global optimum"],
    outside=["strict positivity of the scales (the solver sees >= 0)", "solver accuracy", "sample counts beyond the bound"],
)


def patches(case):
    return fs.fit_patches()


def _abs(M, v):
    return abs(v)


def feasible_pair(M, Aeff, beff, B, neutral, Xs, s, d1, dr, lbl, ubl, m):
    """documented constraints: |sum pred_i - s0 * sum b_i| <= d1, |(pred_i - s0 n_i) - s1 (b_i - n_i)| <= dr (n_i = neutral direction scaled
    to the row total), bounds, scales >= 0"""
    gs = [M.le(0, s[0]), M.le(0, s[1])]
    nsum = fs._sum(list(neutral))
    for i in range(len(Xs)):
        bi = list(B[i]); xi = list(Xs[i])
        p = fs.predict(Aeff, beff, xi)
        tot = fs._sum(bi)
        ni = [neutral[j] / nsum * tot for j in range(m)]
        gs.append(M.le(_abs(M, fs._sum(p) - s[0] * tot), d1))
        for j in range(m):
            gs.append(M.le(_abs(M, (p[j] - s[0] * ni[j]) - s[1] * (bi[j] - ni[j])), dr))
        gs.append(fs.in_bounds(M, xi, lbl, ubl))
    return M.conj(*gs)


def adaptive_case(M, m, n, rows, kkind, neutral_kind, objective, sw_kind, via="function", deltas=None):
    from dreye.api.optimize.lsq_linear import lsq_linear_adaptive
    A, K, base, lb, ub, lbl, ubl = fs.mk_system(M, m, n, kkind, "vec", "pos", "fin")
    neutral = None
    if neutral_kind == "given":
        neutral = M.real("neutral", (m,), sample=lambda r, s: r.uniform(0.5, 1.5, size=s))
        M.assume(fs._sum(list(neutral)) != 0)

    def _b_sample(r, s):
        # concrete modes: targets for which a feasible pair of scales exists (capture p of in-bound intensities, scales st):
        # p = s0 nu T + s1 (B - nu T)  =>  T = sum(p)/s0,  B = nu T + (p - s0 nu T)/s1
        v = M.values
        Ae, be = fs.effective_model(v["A"], v.get("K"), v.get("base"), kkind)
        nu = np.asarray(v["neutral"], dtype=float) if "neutral" in v else np.ones(m)
        nu = nu / nu.sum()
        st = r.uniform(0.5, 0.9, size=2)
        out = np.zeros((rows, m))
        for i in range(rows):
            xt = v["lb"] + r.uniform(0.2, 0.8, size=n) * (v["ub"] - v["lb"])
            p = np.array(fs.predict(Ae, be, list(xt)), dtype=float)
            T = p.sum() / st[0]
            out[i] = nu * T + (p - st[0] * nu * T) / st[1]
        return out
    B = M.real("B", (rows, m), sample=_b_sample)
    if deltas is not None:
        # concrete modes: one tolerance far larger than the other (a mix-up of the two shows only when they differ by more than the solver noise); symbolic as usual
        d1 = M.real("d1", (), sample=lambda r, s: deltas[0]); dr = M.real("dr", (), sample=lambda r, s: deltas[1])
    else:
        d1 = M.real("d1", (), sample=lambda r, s: r.uniform(1e-4, 1e-3)); dr = M.real("dr", (), sample=lambda r, s: r.uniform(1e-4, 1e-3))
    M.assume(d1 > 0); M.assume(dr > 0)
    sw = {"default": lambda: 1, "scalar": lambda: M.real("sw", (), sample=lambda r, s: r.uniform(0.5, 2.0)),
          "pair": lambda: M.real("sw", (2,), sample=lambda r, s: r.uniform(0.5, 2.0, size=s))}[sw_kind]()
    Xc = M.real("xc", (rows, n), sample=lambda r, s: r.uniform(0.3, 1.0, size=s))
    sc = M.real("sc", (2,), sample=lambda r, s: r.uniform(0.2, 1.0, size=s))
    symcp.reset()
    if via == "function":
        X, scales, Bp = lsq_linear_adaptive(A, B, lb=lb, ub=ub, K=K, baseline=base, neutral_point=neutral, delta_radius=dr, delta_norm1=d1,
                                            scale_w=sw, adaptive_objective=objective, return_pred=True)
    else:
        from dreye.api.estimator import ReceptorEstimator
        kw = {}
        if K is not None:
            kw["K"] = K
        est = ReceptorEstimator(np.ones((m, 2)), baseline=base, **kw)
        est.A = A; est.Epsilon = "heteroscedastic"; est.lb = lb; est.ub = ub
        X, scales, Bp = est.fit_adaptive(B, neutral_point=neutral, delta_norm1=d1, delta_radius=dr, adaptive_objective=objective, scale_w=sw)
    X = np.asarray(X); scales = np.asarray(scales); Bp = np.asarray(Bp)
    Aeff, beff = fs.effective_model(A, K, base, kkind)
    goals = {"shapes": X.shape == (rows, n) and scales.shape == (2,) and Bp.shape == (rows, m)}
    if not goals["shapes"]:
        return goals
    # exact constants in symbolic mode (1/3 as a float is not one third)
    neu = list(neutral) if neutral is not None else ([symnp.const(1)] * m if M.symbolic else [1.0] * m)
    sws = fs.vec(sw, 2)

    def obj(s):
        if objective in ("unity", None):
            return fs._sum([(sws[k] * (s[k] - 1)) * (sws[k] * (s[k] - 1)) for k in range(2)])
        return -fs._sum([sws[k] * s[k] for k in range(2)])
    for i in range(rows):
        goals[f"row{i}: prediction = model capture of the returned intensities"] = M.eq(
            Bp[i], np.array(fs.predict(Aeff, beff, list(X[i])), dtype=object if M.symbolic else float))
    s_ = list(scales)
    if M.symbolic:
        goals["returned intensities and scales meet the documented total / offset constraints and the bounds"] = feasible_pair(
            M, Aeff, beff, np.asarray(B), neu, X, s_, d1, dr, lbl, ubl, m)
        solves = list(symcp.SOLVES)
        goals["one solve"] = len(solves) == 1
        if len(solves) == 1:
            rec = solves[0]
            vX = [v for v in rec["problem"].variables() if v.shape == (rows, n)]
            vS = [v for v in rec["problem"].variables() if v.shape == (2,)]
            if len(vX) == 1 and len(vS) == 1:
                alt = {vX[0]: np.asarray(Xc, dtype=object).view(symnp.SymArray), vS[0]: np.asarray(sc, dtype=object).view(symnp.SymArray)}
                inst, _, cons_alt = symcp.optimality_instance(rec, alt)
                c_feas = feasible_pair(M, Aeff, beff, np.asarray(B), neu, Xc, list(sc), d1, dr, lbl, ubl, m)
                what = "closest to (1,1) in the weighted sense" if objective in ("unity", None) else "largest weighted sum"
                goals[f"no feasible pair of scales is better ({what})"] = (M.implies(c_feas, M.le(obj(s_), obj(list(sc)))), [inst])
                goals["solver problem feasible whenever a documented feasible pair exists"] = (M.implies(c_feas, SB(cons_alt)), [], dict(pc_upto=rec["pc_before"]))
                if objective in ("unity", None):
                    # all targets in gamut (rows of xc reproduce them) => (1,1) is feasible => objective 0 => scales == (1,1) (closed sum-of-squares lemma, weights != 0)
                    repro = M.conj(*[M.conj(fs.in_bounds(M, list(Xc[i]), lbl, ubl),
                                            M.eq(np.array(fs.predict(Aeff, beff, list(Xc[i])), dtype=object), np.asarray(B)[i])) for i in range(rows)])
                    alt1 = {vX[0]: np.asarray(Xc, dtype=object).view(symnp.SymArray), vS[0]: symnp.const(np.ones(2))}
                    inst1, _, _ = symcp.optimality_instance(rec, alt1)
                    goals["all targets in gamut => the weighted distance of the scales from (1,1) is <= 0"] = (M.implies(repro, M.le(obj(s_), 0)), [inst1])
                    w1, w2, a1, a2 = z3.Reals("ad_w1 ad_w2 ad_s1 ad_s2")
                    goals["lemma: (w1(s1-1))^2 + (w2(s2-1))^2 <= 0 with w != 0 forces s = (1,1)"] = SB(z3.ForAll([w1, w2, a1, a2], z3.Implies(
                        z3.And(w1 != 0, w2 != 0, (w1 * (a1 - 1)) * (w1 * (a1 - 1)) + (w2 * (a2 - 1)) * (w2 * (a2 - 1)) <= 0), z3.And(a1 == 1, a2 == 1))))
    else:
        tol = 5e-3 * max(1.0, float(np.max(np.abs(np.asarray(B, dtype=float)))))  # the conic solver's accuracy is relative to the magnitude of the captures
        ok = bool(np.all(X >= np.array(lbl) - 0.01) and np.all(X <= np.array(ubl) + 0.01) and s_[0] >= -1e-6 and s_[1] >= -1e-6)
        nsum = float(sum(neu))
        for i in range(rows):
            bi = np.asarray(B)[i]; p = np.array(fs.predict(Aeff, beff, list(X[i])), dtype=float)
            ni = np.array(neu, dtype=float) / nsum * bi.sum()
            ok = ok and abs(p.sum() - s_[0] * bi.sum()) <= float(d1) + tol and bool(np.all(np.abs((p - s_[0] * ni) - s_[1] * (bi - ni)) <= float(dr) + tol))
        goals["returned intensities and scales meet the documented total / offset constraints and the bounds"] = ok
        c_feas = bool(feasible_pair(M, Aeff, beff, np.asarray(B), neu, Xc, list(sc), d1, dr, lbl, ubl, m))
        o_best = adaptive_oracle(objective, sws, Aeff, beff, np.asarray(B), neu, float(d1), float(dr), lbl, ubl, rows, n, m)
        best = min(o_best, float(obj(list(sc))) if c_feas else np.inf)
        what = "closest to (1,1) in the weighted sense" if objective in ("unity", None) else "largest weighted sum"
        goals[f"no feasible pair of scales is better ({what})"] = bool(float(obj(s_)) <= best + 2e-2 * (1 + abs(best)))
    return goals


def adaptive_oracle(objective, sws, Aeff, beff, B, neu, d1, dr, lb, ub, rows, n, m):
    """independent numeric optimum over (X, s0, s1): the constraints are linear, so 'max' is an LP and 'unity' a small QP (SLSQP from the LP vertex)"""
    from scipy.optimize import linprog, minimize
    Ae = np.array(Aeff, dtype=float); be = np.array(beff, dtype=float); neu = np.array(neu, dtype=float)
    nv = rows * n + 2
    G, h = [], []
    for i in range(rows):
        bi = B[i]; tot = bi.sum(); ni = neu / neu.sum() * tot
        row = np.zeros(nv); row[i * n:(i + 1) * n] = Ae.sum(axis=0); row[-2] = -tot
        c0 = be.sum()
        G += [row, -row]; h += [d1 - c0, d1 + c0]
        for j in range(m):
            row = np.zeros(nv); row[i * n:(i + 1) * n] = Ae[j]; row[-2] = -ni[j]; row[-1] = -(bi[j] - ni[j])
            G += [row, -row]; h += [dr - be[j], dr + be[j]]
    bounds = [(float(lb[k % n]), float(ub[k % n])) for k in range(rows * n)] + [(0, None), (0, None)]
    sw = np.array(sws, dtype=float)
    c = np.zeros(nv); c[-2:] = -sw
    r = linprog(c, A_ub=np.array(G), b_ub=np.array(h), bounds=bounds, method="highs")
    if r.status != 0:
        return np.inf
    if objective == "max":
        return float(r.fun)
    f = lambda z: float(np.sum((sw * (z[-2:] - 1)) ** 2))
    cons = [dict(type="ineq", fun=lambda z: np.array(h) - np.array(G) @ z)]
    best = np.inf
    for z0 in (r.x, np.concatenate([r.x[:-2], [1.0, 1.0]])):
        rr = minimize(f, z0, bounds=bounds, constraints=cons, method="SLSQP", options=dict(ftol=1e-14, maxiter=1000))
        if np.all(np.array(h) - np.array(G) @ rr.x >= -1e-7):
            best = min(best, float(rr.fun))
    return best


def name_case(M):
    from dreye.api.optimize.lsq_linear import lsq_linear_adaptive
    A = M.real("A", (2, 2)); B = M.real("B", (1, 2))
    try:
        lsq_linear_adaptive(A, B, lb=np.zeros(2), ub=np.ones(2), adaptive_objective="no-such-objective")
        return {"unknown objective name rejected": False}
    except NameError:
        return {"unknown objective name rejected": True}


def cases(tier, seed):
    C = []
    big = tier == "thorough"

    def add(name, **kw):
        C.append(dict(name=name, body="adaptive_case", kwargs=kw, opts=dict(timeout_ms=60000, n_validate=1)))
    for objective in ("unity", "max", None):
        for neutral_kind in ("default", "given"):
            for kkind in ("none", "vec", "mat"):
                add(f"2x2 rows=2 K={kkind} neutral={neutral_kind} obj={objective} sw=pair", m=2, n=2, rows=2, kkind=kkind, neutral_kind=neutral_kind, objective=objective, sw_kind="pair")
            add(f"3x3 rows=1 K=vec neutral={neutral_kind} obj={objective} sw=scalar", m=3, n=3, rows=1, kkind="vec", neutral_kind=neutral_kind, objective=objective, sw_kind="scalar")
            add(f"2x3 rows=3 K=vec neutral={neutral_kind} obj={objective} sw=default", m=2, n=3, rows=3, kkind="vec", neutral_kind=neutral_kind, objective=objective, sw_kind="default")
        add(f"estimator.fit_adaptive 2x3 rows=2 obj={objective}", m=2, n=3, rows=2, kkind="vec", neutral_kind="given", objective=objective, sw_kind="pair", via="estimator")
        if objective is not None:
            for dl in ((0.3, 3e-4), (3e-4, 0.3)):
                add(f"estimator.fit_adaptive 2x3 rows=2 obj={objective} sampled deltas (total, offset)={dl}", m=2, n=3, rows=2, kkind="vec", neutral_kind="given",
                    objective=objective, sw_kind="pair", via="estimator", deltas=dl)
                C[-1]["opts"]["n_validate"] = 2
            add(f"2x2 rows=2 K=vec obj={objective} sampled deltas (total, offset)=(0.3, 0.0003)", m=2, n=2, rows=2, kkind="vec", neutral_kind="default", objective=objective, sw_kind="pair",
                deltas=(0.3, 3e-4))
        if big:
            add(f"3x4 rows=4 K=vec neutral=given obj={objective}", m=3, n=4, rows=4, kkind="vec", neutral_kind="given", objective=objective, sw_kind="pair")
            add(f"4x6 rows=2 K=vec neutral=default obj={objective}", m=4, n=6, rows=2, kkind="vec", neutral_kind="default", objective=objective, sw_kind="pair")
    C.append(dict(name="unknown objective name", body="name_case", kwargs={}, opts=dict(n_validate=1)))
    return C
