"""C03 gamut membership is exact: in-gamut iff reproducible by in-bound intensities."""
import itertools

import numpy as np
import z3

from vf import fitspec as fs
from vf import harness, stubs, symcp, symnp
from vf.symnp import S, SB, lift

META = dict(
    functions=["dreye.api.convex.all_combinations_of_bounds", "get_P_from_A", "in_hull_from_A", "in_hull", "convex_combination", "dreye.api.utils.transform_values",
               "apply_linear_transform", "ensure_bounds", "predict_values", "l2norm", "ReceptorEstimator.in_hull / in_gamut (plain, relative=False, normalized=True)",
               "ReceptorEstimator._get_P_from_A", "dreye.api.barycentric.barycentric_dim_reduction"],
    bounds=dict(quick="(receptors x sources) (2,2),(2,3),(3,3),(3,4) qhull path; (3,2),(2,1) fewer sources than receptors (NNLS fallback); (2,2),(2,3) unbounded (cone); "
                      "2 target rows; K none / vector / matrix; baseline vector / length-1; lb symbolic >= 0 (and exactly 0); ub symbolic > lb; relative and absolute capture; "
                      "chromatic membership for dichromats (interval) and trichromats (3,3)",
                thorough="adds (3,5),(4,4),(4,5) and chromatic (3,4)"),
    stubs=["scipy.spatial.Delaunay: find_simplex(b) >= 0 <=> b in conv(points) (two-sided, used through explicit instances); QhullError iff fewer sources than receptors; "
           "for sources >= receptors the cloud is ASSUMED full-dimensional (some receptors-sized column subset of K A diag(ub-lb) is non-singular)",
           "cvxpy -> symcp for the non-negative least-squares fallback", "sklearn normalize -> rows / sum|x|", "scipy norm -> exact sqrt symbol"],
    assumptions=["real arithmetic", "ub > lb >= 0", "unbounded case: A >= 0 and K a positive vector (captures)", "chromatic case: all gamut vertices have positive total capture"],
    outside=["qhull's own tolerance near the boundary", "the 1e-8 residual band of the NNLS fallback (reported-in means residual <= 1e-8 there)"],
)


def patches(case):
    return fs.fit_patches() + stubs.qhull_patches(("dreye.api.convex",)) + stubs.normalize_patches()


def corners(n):
    return list(itertools.product([0, 1], repeat=n))


def corner_x(c, lbl, ubl):
    return [lbl[j] + c[j] * (ubl[j] - lbl[j]) for j in range(len(lbl))]


def _fulldim_assumption(M, Aeff, lbl, ubl, m, n):
    """some m columns of Aeff are linearly independent (ub > lb strictly is assumed separately)"""
    if not M.symbolic:
        return
    A_ = np.array(Aeff, dtype=object)
    alts = []
    for cols in itertools.combinations(range(n), m):
        d = symnp.det(A_[:, list(cols)])
        alts.append(lift(d) != 0)
    M.assume(z3.Or(alts))


def _call(M, via, B, A, lb, ub, K, base, relative, m):
    if via == "function":
        from dreye.api.convex import in_hull_from_A
        return in_hull_from_A(B, A, lb, ub, K=(K if relative else None), baseline=(base if relative else None))
    from dreye.api.estimator import ReceptorEstimator
    kw = {}
    if K is not None:
        kw["K"] = K
    if base is not None:
        kw["baseline"] = base
    est = ReceptorEstimator(np.ones((m, 2)), **kw)
    est.A = A; est.Epsilon = "heteroscedastic"; est.lb = lb; est.ub = ub
    return est.in_hull(B, relative=relative)


def member_case(M, m, n, kkind, bkind, lbkind, direction, relative=True, via="function", rows=2):
    A, K, base, lb, ub, lbl, ubl = fs.mk_system(M, m, n, kkind, bkind, lbkind, "fin")
    for j in range(n):
        M.assume(ubl[j] > lbl[j])
    Aeff, beff = fs.effective_model(A, K if relative else None, base if relative else None, kkind if relative else "none")
    fallback = n < m
    if not fallback:
        _fulldim_assumption(M, Aeff, lbl, ubl, m, n)
    stubs.qhull_reset(fulldim=lambda P: not fallback)
    symcp.reset()
    cs = corners(n)
    if direction == "sound":
        B = M.real("B", (rows, m), sample=lambda r, s: r.uniform(0.2, 4.0, size=s))
    else:
        t = M.real("t", (rows, n), sample=lambda r, s: r.choice([0.0, 1.0, 0.5, 0.25, 0.9], size=s))
        for v in np.asarray(t).ravel():
            M.assume(v >= 0); M.assume(v <= 1)
        xt = [[lbl[j] + t[i][j] * (ubl[j] - lbl[j]) for j in range(n)] for i in range(rows)]
        B = np.array([fs.predict(Aeff, beff, xt[i]) for i in range(rows)], dtype=object if M.symbolic else float)
        if M.symbolic:
            B = B.view(symnp.SymArray)
    res = _call(M, via, B, A, lb, ub, K, base, relative, m)
    res = np.atleast_1d(np.asarray(res))
    M.observe("res", res)
    goals = {"shape": res.shape == (rows,)}
    if not goals["shape"]:
        return goals
    if not M.symbolic:
        # float mode: exact LP oracle
        for i in range(rows):
            inside = lp_member(Aeff, beff, list(np.asarray(B)[i]), lbl, ubl)
            margin = lp_margin(Aeff, beff, list(np.asarray(B)[i]), lbl, ubl)
            if direction == "complete":
                goals[f"row{i}: capture of in-bound intensities is reported in gamut"] = bool(res[i]) or margin < 1e-7
            else:
                goals[f"row{i}: reported in gamut => reproducible by in-bound intensities"] = (not bool(res[i])) or inside or margin < 1e-7
        return goals
    calls = list(stubs.QHULL_CALLS)
    Pspec = [fs.predict(Aeff, beff, corner_x(c, lbl, ubl)) for c in cs]
    if not fallback:
        M.tag("delaunay")
        goals["one membership query"] = len(calls) == 1
        if len(calls) != 1:
            return goals
        call = calls[0]
        P_, B_, flags = np.asarray(call["P"]), np.asarray(call["B"]), call["flags"]
        goals["cloud handed to qhull has one point per corner of the intensity box"] = P_.shape == (len(cs), m) and B_.shape == (rows, m)
        if P_.shape != (len(cs), m) or B_.shape != (rows, m):
            return goals
        for i in range(rows):
            rep = SB(lift(res[i]) if isinstance(res[i], S) else res[i].t) if not isinstance(res[i], SB) else res[i]
            if direction == "sound":
                lam, inst = stubs.conv_weights_instance(f"lam{i}", P_, B_[i])
                x = [z3.Sum([lam[ci] * lift(corner_x(c, lbl, ubl)[j]) for ci, c in enumerate(cs)]) for j in range(n)]
                xs = [S(v) for v in x]
                ok = M.conj(fs.in_bounds(M, xs, lbl, ubl), M.eq(np.array(fs.predict(Aeff, beff, xs), dtype=object), np.asarray(B)[i]))
                goals[f"row{i}: reported in gamut => reproducible by in-bound intensities"] = (M.implies(rep, ok), [z3.Implies(flags[i], inst)])
            else:
                lam = []
                for c in cs:
                    w = 1
                    for j in range(n):
                        w = w * (t[i][j] if c[j] else (1 - t[i][j]))
                    lam.append(w)
                inst2 = z3.Implies(stubs.conv_formula(lam, P_, B_[i]), flags[i])
                goals[f"row{i}: capture of in-bound intensities is reported in gamut"] = (rep, [inst2])
        return goals
    # ---------------- fallback: non-negative least squares on [P^T; 1] lambda = [b; 1]
    M.tag("nnls-fallback")
    solves = list(symcp.SOLVES)
    goals["one NNLS solve per row"] = len(solves) == rows
    if len(solves) != rows:
        return goals
    off = [symnp._reduce(symnp.smin, np.array([Pspec[c][d] for c in range(len(cs))], dtype=object), None) for d in range(m)]
    for i in range(rows):
        rep = res[i] if isinstance(res[i], SB) else SB(z3.BoolVal(bool(res[i])))
        rec = solves[i]
        var = rec["problem"].variables()[0]
        lam_star = list(np.asarray(rec["xstar"][var]).ravel())
        goals[f"row{i}: one weight per corner"] = len(lam_star) == len(cs)
        if len(lam_star) != len(cs):
            continue

        def resid(lam):
            r = [fs._sum([lam[c] * (Pspec[c][d] - off[d]) for c in range(len(cs))]) - (np.asarray(B)[i][d] - off[d]) for d in range(m)]
            r.append(fs._sum(list(lam)) - 1)
            return fs._sum([v * v for v in r])
        if direction == "sound":
            nrm = resid(lam_star).sqrt()
            goals[f"row{i}: reported in gamut => non-negative corner weights reproduce the target and sum to one within the 1e-8 residual"] = M.implies(
                rep, M.conj(M.le(0, np.array(lam_star, dtype=object)), M.le(nrm, 1e-8)))
        else:
            lam = []
            for c in cs:
                w = 1
                for j in range(n):
                    w = w * (t[i][j] if c[j] else (1 - t[i][j]))
                lam.append(w if isinstance(w, S) else S(lift(w)))
            inst, obj_alt, cons_alt = symcp.optimality_instance(rec, {var: np.array(lam, dtype=object).view(symnp.SymArray)})
            goals[f"row{i}: the multilinear corner weights are feasible for the NNLS problem and have zero residual"] = M.conj(SB(cons_alt), M.eq(obj_alt, 0))
            # (uses the previous goal, proved separately: the competitor's residual is zero)
            goals[f"row{i}: capture of in-bound intensities is reported in gamut"] = (rep, [inst, lift(obj_alt) == 0, cons_alt])
    return goals


def unbounded_case(M, m, n, kkind, direction):
    """ub = inf: the gamut is the cone  {K(A x + baseline) : x >= lb};  membership goes through non-negative least squares on the corner cloud of [lb, lb+1]"""
    from dreye.api.convex import in_hull_from_A
    A, K, base, lb, ub, lbl, _ = fs.mk_system(M, m, n, kkind, "vec", "poswide", "inf")
    fs.assume_nonneg_system(M, A, K, base, np.zeros((1, 1)), kkind)
    Aeff, beff = fs.effective_model(A, K, base, kkind)
    stubs.qhull_reset(); symcp.reset()
    cs = corners(n)
    rows = 1
    if direction == "sound":
        def _b_sample(r, s):
            # concrete modes: half of the targets lie just "below" the apex of the cone (towards the point whose coordinates all equal the apex's smallest one):
            # not reproducible (they would need x < lb), and the place where an offset error of the membership test shows
            v = M.values
            Ae, be = fs.effective_model(v["A"], v.get("K"), v.get("base"), kkind)
            apex = np.array(fs.predict(Ae, be, list(v["lb"])), dtype=float)
            out = r.uniform(0.5, 9.0, size=s)
            for i in range(s[0]):
                u = r.uniform()
                if u < 0.3:
                    mu = r.uniform(0.2, 0.8)
                    out[i] = apex.min() + mu * (apex - apex.min())
                elif u < 0.8:
                    # the capture of intensities partly BELOW their lower bounds (the region a misplaced apex wrongly accepts)
                    x = np.asarray(v["lb"], dtype=float) * r.uniform(0.7, 0.98, size=len(v["lb"])) + r.choice([0.0, 0.0, 1.0], size=len(v["lb"])) * r.uniform(0.0, 1.0, size=len(v["lb"]))
                    out[i] = np.array(fs.predict(Ae, be, list(x)), dtype=float)
            return out
        B = M.real("B", (rows, m), sample=_b_sample)
    else:
        sx = M.real("sx", (rows, n), sample=lambda r, s: r.uniform(0.0, 2.0, size=s) * r.choice([0.0, 1.0, 1.0], size=s))
        for v in np.asarray(sx).ravel():
            M.assume(v >= 0)
        B = np.array([fs.predict(Aeff, beff, [lbl[j] + sx[i][j] for j in range(n)]) for i in range(rows)], dtype=object if M.symbolic else float)
        if M.symbolic:
            B = B.view(symnp.SymArray)
    res = np.atleast_1d(np.asarray(in_hull_from_A(B, A, lb, ub, K=K, baseline=base)))
    goals = {"shape": res.shape == (rows,)}
    if not goals["shape"]:
        return goals
    if not M.symbolic:
        # the NNLS verdict `isclose(residual, 0)` depends on the accuracy of the real solver: only the false-accept clause is asserted in float mode
        for i in range(rows):
            from scipy.optimize import lsq_linear as sls
            r = sls(np.array(Aeff, dtype=float), np.array(list(np.asarray(B)[i]), dtype=float) - np.array(beff, dtype=float) - np.array(Aeff, dtype=float) @ np.array(lbl, dtype=float),
                    bounds=(0, np.inf), tol=1e-12)
            dist = float(np.sqrt(2 * r.cost))
            if direction == "sound":
                goals[f"row{i}: reported in gamut => reproducible by intensities >= lb"] = (not bool(res[i])) or dist <= 1e-5
        return goals
    M.tag("affine-cone")
    solves = list(symcp.SOLVES)
    goals["one NNLS solve per row"] = len(solves) == rows
    if len(solves) != rows:
        return goals
    for i in range(rows):
        rep = res[i] if isinstance(res[i], SB) else SB(z3.BoolVal(bool(res[i])))
        rec = solves[i]; var = rec["problem"].variables()[0]
        lam_star = list(np.asarray(rec["xstar"][var]).ravel())
        goals[f"row{i}: one weight per corner of the unit box above lb"] = len(lam_star) == len(cs)
        if len(lam_star) != len(cs):
            continue
        bi = list(np.asarray(B)[i])
        if direction == "sound":
            # residual written with the componentwise minimum `off` of the corner captures (as the code shifts cloud and target); `off` is the capture of
            # x = lb (cone apex) because A, K >= 0 -- separate goal below -- so the residual is that of the intensities x = lb + sum(weights * corner) >= lb
            Pc = [fs.predict(Aeff, beff, [lbl[j] + c[j] for j in range(n)]) for c in cs]
            off = [symnp._reduce(symnp.smin, np.array([Pc[c][d] for c in range(len(cs))], dtype=object), None) for d in range(m)]
            resid = fs._sum([(fs._sum([lam_star[c] * (Pc[c][d] - off[d]) for c in range(len(cs))]) - (bi[d] - off[d])) *
                             (fs._sum([lam_star[c] * (Pc[c][d] - off[d]) for c in range(len(cs))]) - (bi[d] - off[d])) for d in range(m)])
            goals[f"row{i}: reported in gamut => non-negative corner weights reproduce the shifted target within the 1e-8 residual"] = M.implies(
                rep, M.conj(M.le(0, np.array(lam_star, dtype=object)), M.le(resid.sqrt(), 1e-8)))
            goals[f"row{i}: the shift is the capture of x = lb (cone apex)"] = M.eq(np.array(off, dtype=object), np.array(fs.predict(Aeff, beff, lbl), dtype=object))
        else:
            lam = []
            for c in cs:
                k = [j for j in range(n) if c[j]]
                lam.append(sx[i][k[0]] if len(k) == 1 else symnp.const(0))
            lam = [v if isinstance(v, S) else S(lift(v)) for v in lam]
            inst, obj_alt, cons_alt = symcp.optimality_instance(rec, {var: np.array(lam, dtype=object).view(symnp.SymArray)})
            goals[f"row{i}: the weights (s_k on the k-th unit corner) are feasible for the NNLS problem and have zero residual"] = M.conj(SB(cons_alt), M.eq(obj_alt, 0))
            goals[f"row{i}: capture of intensities >= lb is reported in gamut"] = (rep, [inst, lift(obj_alt) == 0, cons_alt])
    return goals


def chromatic_case(M, m, n, kkind):
    """estimator.in_hull(B, normalized=True): the chromaticities (L1-normalised captures) of the non-zero gamut vertices and of the targets are what is tested"""
    from dreye.api.estimator import ReceptorEstimator
    A, K, base, lb, ub, lbl, ubl = fs.mk_system(M, m, n, kkind, "vec", "pos", "fin")
    for j in range(n):
        M.assume(ubl[j] > lbl[j])
    fs.assume_nonneg_system(M, A, K, base, np.zeros((1, 1)), kkind)
    for v in np.asarray(base):
        M.assume(v > 0)  # every vertex has positive total capture (no zero rows to remove)
    rows = 2
    B = M.real("B", (rows, m), sample=lambda r, s: r.uniform(0.2, 3.0, size=s))
    for v in np.asarray(B).ravel():
        M.assume(v > 0)
    Aeff, beff = fs.effective_model(A, K, base, kkind)
    est = ReceptorEstimator(np.ones((m, 2)), K=K, baseline=base)
    est.A = A; est.Epsilon = "heteroscedastic"; est.lb = lb; est.ub = ub
    stubs.qhull_reset(fulldim=lambda P: True)
    res = np.atleast_1d(np.asarray(est.in_hull(B, normalized=True)))
    goals = {"shape": res.shape == (rows,)}
    if not goals["shape"]:
        return goals
    cs = corners(n)
    Pc = [fs.predict(Aeff, beff, corner_x(c, lbl, ubl)) for c in cs]
    # L1 normalisation written as the code's normaliser does (sum of absolute values; captures are positive here)
    def chroma(v):
        if M.symbolic:  # the normaliser's documented contract (vf.stubs.normalize_stub): row / sum|x|, all-zero rows unchanged
            return list(np.asarray(stubs.normalize_stub(np.array([list(v)], dtype=object).view(symnp.SymArray), norm="l1", axis=1))[0])
        tot = float(sum(abs(float(x_)) for x_ in v))
        return [float(x_) / (tot if tot != 0 else 1.0) for x_ in v]
    if m == 2:
        # dichromat: the chromatic gamut is the interval spanned by the second-receptor share of the vertices
        ph = [chroma(p)[1] for p in Pc]
        for i in range(rows):
            bh = chroma(list(np.asarray(B)[i]))[1]
            if M.symbolic:
                lo = symnp._reduce(symnp.smin, np.array(ph, dtype=object), None); hi = symnp._reduce(symnp.smax, np.array(ph, dtype=object), None)
                rep = res[i] if isinstance(res[i], SB) else SB(z3.BoolVal(bool(res[i])))
                goals[f"row{i}: in the chromatic gamut <=> chromaticity between the extreme vertex chromaticities"] = SB(rep.t == z3.And(lift(lo) <= lift(bh), lift(bh) <= lift(hi)))
            else:
                goals[f"row{i}: in the chromatic gamut <=> chromaticity between the extreme vertex chromaticities"] = bool(res[i]) == bool(min(ph) - 1e-12 <= bh <= max(ph) + 1e-12)
        return goals
    if not M.symbolic:
        from scipy.optimize import linprog
        Ph = np.array([chroma(p) for p in Pc], dtype=float)
        for i in range(rows):
            bh = np.array(chroma(list(np.asarray(B)[i])), dtype=float)
            r = linprog(np.zeros(len(cs)), A_eq=np.vstack([Ph.T, np.ones(len(cs))]), b_eq=np.append(bh, 1.0), bounds=[(0, None)] * len(cs), method="highs")
            goals[f"row{i}: verdict agrees with the LP on the chromaticities"] = bool(res[i]) == (r.status == 0)
        return goals
    calls = list(stubs.QHULL_CALLS)
    goals["one chromatic membership query"] = len(calls) == 1
    if len(calls) != 1:
        return goals
    P_, B_ = np.asarray(calls[0]["P"]), np.asarray(calls[0]["B"])
    # barycentric -> cartesian map of the regular simplex with unit edges, m = 3: corners (0,0), (1,0), (1/2, sqrt(3)/2)
    r3 = S(lift(0.75)).sqrt()
    T = [[0, 0], [1, 0], [S(lift(0.5)), r3]]
    tocart = lambda q: [fs._sum([q[k] * T[k][d] for k in range(3)]) for d in range(2)]
    goals["cloud handed to qhull = chromaticities of all gamut vertices"] = P_.shape == (len(cs), 2) and M.eq(P_, np.array([tocart(chroma(p)) for p in Pc], dtype=object))
    goals["targets handed to qhull = chromaticities of the targets"] = B_.shape == (rows, 2) and M.eq(B_, np.array([tocart(chroma(list(np.asarray(B)[i]))) for i in range(rows)], dtype=object))
    return goals


def chromatic_zero_case(M, n):
    """dichromat chromatic membership when gamut vertices may have zero coordinates (no baseline, lb = 0, capture matrix entries >= 0, possibly exactly 0): only the
    all-zero vertex is dropped; the gamut is the interval spanned by the chromaticities of all the others"""
    from dreye.api.estimator import ReceptorEstimator
    m = 2
    A = M.real("A", (m, n), sample=lambda r, s: r.uniform(0.2, 2.0, size=s) * r.choice([0.0, 1.0, 1.0], size=s))
    K = M.real("K", (m,), sample=lambda r, s: r.uniform(0.5, 2.0, size=s))
    ub = M.real("ub", (n,), sample=lambda r, s: r.uniform(1.0, 3.0, size=s))
    for v in np.asarray(A).ravel():
        M.assume(v >= 0)
    for v in list(K) + list(ub):
        M.assume(v > 0)
    lbl = [0] * n; ubl = list(ub)
    B = M.real("B", (1, m), sample=lambda r, s: r.uniform(0.2, 3.0, size=s))
    for v in np.asarray(B).ravel():
        M.assume(v > 0)
    est = ReceptorEstimator(np.ones((m, 2)), K=K)
    est.A = A; est.Epsilon = "heteroscedastic"; est.lb = np.zeros(n); est.ub = ub
    Aeff, beff = fs.effective_model(A, K, None, "vec")
    cs = corners(n)
    Pc = [fs.predict(Aeff, beff, corner_x(c, lbl, ubl)) for c in cs]
    tot = [p[0] + p[1] for p in Pc]
    keep = [k for k in range(len(cs)) if (bool(tot[k] != 0))]
    if len(keep) < 2:
        raise harness.SkipSample() if not M.symbolic else symnp.Abort()
    try:
        res = np.atleast_1d(np.asarray(est.in_hull(B, normalized=True)))
    except Exception:
        if len(keep) == 0:
            return {}
        raise
    sh = [Pc[k][1] / tot[k] for k in keep]
    bh = np.asarray(B)[0][1] / (np.asarray(B)[0][0] + np.asarray(B)[0][1])
    if M.symbolic:
        lo = symnp._reduce(symnp.smin, np.array(sh, dtype=object), None); hi = symnp._reduce(symnp.smax, np.array(sh, dtype=object), None)
        rep = res[0] if isinstance(res[0], SB) else SB(z3.BoolVal(bool(res[0])))
        return {"in the chromatic gamut <=> chromaticity between the extreme chromaticities of all non-zero vertices": SB(rep.t == z3.And(lift(lo) <= lift(bh), lift(bh) <= lift(hi)))}
    return {"in the chromatic gamut <=> chromaticity between the extreme chromaticities of all non-zero vertices": bool(res[0]) == bool(min(sh) - 1e-12 <= bh <= max(sh) + 1e-12)}


def lp_member(Aeff, beff, b, lb, ub):
    from scipy.optimize import linprog
    Ae = np.array(Aeff, dtype=float); be = np.array(beff, dtype=float)
    r = linprog(np.zeros(Ae.shape[1]), A_eq=Ae, b_eq=np.array(b, dtype=float) - be, bounds=list(zip(lb, ub)), method="highs")
    return r.status == 0


def lp_margin(Aeff, beff, b, lb, ub):
    """distance-like margin: smallest max-norm violation of A x + beff = b over the box (0 inside); small values = near the boundary band"""
    from scipy.optimize import linprog
    Ae = np.array(Aeff, dtype=float); be = np.array(beff, dtype=float); b = np.array(b, dtype=float)
    m, n = Ae.shape
    c = np.zeros(n + 1); c[-1] = 1
    G = np.vstack([np.hstack([Ae, -np.ones((m, 1))]), np.hstack([-Ae, -np.ones((m, 1))])])
    h = np.concatenate([b - be, -(b - be)])
    r = linprog(c, A_ub=G, b_ub=h, bounds=list(zip(lb, ub)) + [(0, None)], method="highs")
    return float(r.fun) if r.status == 0 else np.inf


def cases(tier, seed):
    C = []
    big = tier == "thorough"

    def add(name, **kw):
        C.append(dict(name=name, body="member_case", kwargs=kw, opts=dict(timeout_ms=120000, n_validate=2), expect_tags=kw.pop("_tags", ())))
    shapes = [(2, 2), (2, 3), (3, 3), (3, 4)] + ([(3, 5), (4, 4), (4, 5)] if big else [])
    for (m, n) in shapes:
        for direction in ("sound", "complete"):
            kk = ("none", "vec", "mat") if (m, n) in ((2, 2), (2, 3)) else ("vec", "mat")
            for kkind in kk:
                add(f"{m}x{n} {direction} K={kkind} base=vec lb=pos", m=m, n=n, kkind=kkind, bkind="vec", lbkind="pos", direction=direction, _tags=("delaunay",))
    for direction in ("sound", "complete"):
        add(f"2x3 {direction} K=vec base=scalar lb=zero", m=2, n=3, kkind="vec", bkind="scalar", lbkind="zero", direction=direction)
        add(f"2x3 {direction} K=mat base=scalar lb=pos", m=2, n=3, kkind="mat", bkind="scalar", lbkind="pos", direction=direction)
        add(f"2x3 {direction} absolute capture (relative=False) via estimator", m=2, n=3, kkind="vec", bkind="vec", lbkind="pos", direction=direction, relative=False, via="estimator")
        add(f"2x3 {direction} via estimator K=mat", m=2, n=3, kkind="mat", bkind="vec", lbkind="pos", direction=direction, via="estimator")
        add(f"3x2 {direction} fewer sources than receptors K=vec", m=3, n=2, kkind="vec", bkind="vec", lbkind="pos", direction=direction, _tags=("nnls-fallback",))
        add(f"2x1 {direction} single source K=vec", m=2, n=1, kkind="vec", bkind="vec", lbkind="pos", direction=direction, _tags=("nnls-fallback",))
        for (m, n, kk) in ((2, 2, "none"), (2, 3, "none"), (2, 2, "vec")):
            C.append(dict(name=f"{m}x{n} unbounded sources {direction} K={kk}", body="unbounded_case", kwargs=dict(m=m, n=n, kkind=kk, direction=direction),
                          opts=dict(timeout_ms=120000, n_validate=2), expect_tags=("affine-cone",)))
    C.append(dict(name="2x2 chromatic membership with zero capture entries (no baseline, lb = 0)", body="chromatic_zero_case", kwargs=dict(n=2), opts=dict(timeout_ms=60000, n_validate=3, max_paths=600)))
    for (m, n, kk) in ((2, 2, "vec"), (2, 3, "mat"), (3, 3, "vec")) + (((3, 4, "vec"),) if big else ()):
        C.append(dict(name=f"{m}x{n} chromatic membership K={kk}", body="chromatic_case", kwargs=dict(m=m, n=n, kkind=kk), opts=dict(timeout_ms=120000, n_validate=2)))
    return C
