"""C13 samples drawn in the gamut are in the gamut and reproducible (uniformity reduced to stated lemmas)."""
import importlib
import itertools
import math

import numpy as np
import z3

from vf import fitspec as fs
from vf import harness, stubs, symnp
from vf.symnp import S, SB, E, lift

META = dict(
    functions=["dreye.api.sampling.sample_in_hull (pseudo-random and QMC branches)", "ReceptorEstimator.sample_in_hull / sample_in_gamut (plain and l1)",
               "dreye.api.barycentric.barycentric_dim_reduction / cartesian_to_barycentric (l1 variant)"],
    bounds=dict(quick="clouds of 3-5 symbolic points in 2-3 dimensions, triangulations of 1-3 simplices given as index tuples, n = 1..4 samples, every assignment of samples to "
                      "simplices; QMC: engines 'Sobol','Halton','LHC', every allocation of n samples to the simplices; estimator: 2-3 receptors x 2-3 sources, with and without l1",
                thorough="n up to 6, 4 simplices"),
    stubs=["numpy default_rng -> recording generator: choice returns the index vector fixed by the case (every vector is enumerated), its `p` argument is recorded",
           "scipy dirichlet.rvs -> arbitrary non-negative rows summing to 1 (alpha, size and random_state recorded)",
           "scipy qmc engines -> arbitrary points in [0,1) with positive row sums; constructor arguments (dimension, seed) recorded; MultinomialQMC -> the allocation fixed by the case",
           "ConvexHull.vertices -> all points (a superset has the same hull); Delaunay.simplices -> index tuples given by the case (any tuples keep the membership claims valid)"],
    assumptions=["real arithmetic", "ASSUMED, not decided: Dirichlet(1,...,1) weights are uniform on a simplex; Delaunay simplices tile the hull -- with these two lemmas, "
                 "'simplex chosen with probability volume/total volume' (decided) gives uniformity"],
    outside=["the distributional uniformity itself beyond the reduction above (in the runs of the real code: a chi-square comparison of 20000 samples against a reference "
             "triangulation, used as the replay oracle for counterexamples of the reduction)",
             "flat gamuts (fewer sources than receptors with absolute capture or zero baseline): qhull rejects the flat cloud, a precondition of hull-based sampling", "n up to 1e5 (n enters only as an array length)", "qhull's triangulation"],
)

REC = {}


class _Rng:
    def __init__(self, seed):
        self.seed = seed
        REC.setdefault("rng_seeds", []).append(seed)

    def choice(self, a, size=None, replace=True, p=None, **kw):
        REC["choice"] = dict(a=a, size=size, p=p)
        idx = REC["plan_indices"]
        if size is not None and len(idx) != size:
            raise ValueError("plan/size mismatch")
        if isinstance(a, (int, np.integer)) and any(i >= a for i in idx):
            raise ValueError("a and p must have same size")  # numpy raises when p has a different length than a
        if p is not None and len(np.asarray(p)) != a:
            raise ValueError("'a' and 'p' must have same size")
        return np.array(idx, dtype=int)

    def standard_normal(self, size=None):
        raise symnp.Inconclusive("standard_normal not modelled here")


def _default_rng(seed=None):
    return _Rng(seed)


class _Dirichlet:
    @staticmethod
    def rvs(alpha, size=1, random_state=None):
        REC["dirichlet"] = dict(alpha=list(alpha), size=size, random_state=random_state)
        e = E()
        k = len(alpha)
        out = np.empty((size, k), dtype=object)
        for i in range(size):
            for j in range(k):
                out[i, j] = S(z3.Real(f"dir_{i}_{j}"))
                e.assume(out[i, j].t >= 0)
            e.assume(z3.Sum([out[i, j].t for j in range(k)]) == 1)
        return out.view(symnp.SymArray)


class _Engine:
    kind = "engine"

    def __init__(self, d=None, seed=None, **kw):
        self.d = d; self.seed = seed
        REC.setdefault("engines", []).append(dict(kind=type(self).__name__, d=d, seed=seed))
        self._n = 0

    def random(self, n=1):
        e = E()
        k = REC.setdefault("qmc_draws", 0)
        REC["qmc_draws"] = k + 1
        out = np.empty((n, self.d), dtype=object)
        for i in range(n):
            for j in range(self.d):
                out[i, j] = S(z3.Real(f"qmc{k}_{i}_{j}"))
                e.assume(z3.And(out[i, j].t >= 0, out[i, j].t < 1))
            e.assume(z3.Sum([out[i, j].t for j in range(self.d)]) > 0)
        return out.view(symnp.SymArray)


class Sobol(_Engine): pass
class Halton(_Engine): pass
class LatinHypercube(_Engine): pass


class MultinomialQMC:
    def __init__(self, pvals, n_trials, engine=None, seed=None, **kw):
        REC["multinomial"] = dict(pvals=pvals, n_trials=n_trials, engine=engine, seed=seed)

    def random(self, n=1):
        return np.array([REC["plan_counts"]], dtype=float)


class _Qmc:
    QMCEngine = _Engine
    Sobol = Sobol; Halton = Halton; LatinHypercube = LatinHypercube; MultinomialQMC = MultinomialQMC


class _Hull:
    def __init__(self, P, qhull_options=None):
        # contract: `vertices` indexes points with the same convex hull, in an order of qhull's choosing (here: all points, in the order fixed by the case)
        order = REC.get("plan_vertices")
        self.vertices = np.arange(np.asarray(P).shape[0]) if order is None else np.array(order, dtype=int)
        REC.setdefault("hull_P", []).append(np.asarray(P))


class _Deln:
    def __init__(self, P, qhull_options=None):
        self.simplices = np.array(REC["plan_simplices"], dtype=int)


def patches(case):
    sm = importlib.import_module("dreye.api.sampling")
    return harness.standard_patches() + stubs.normalize_patches() + [
        (sm, "default_rng", _default_rng), (sm, "Generator", _Rng), (sm, "dirichlet", _Dirichlet), (sm, "qmc", _Qmc), (sm, "ConvexHull", _Hull), (sm, "Delaunay", _Deln)]


def _vol(pts, d):
    """|det(edge matrix)| / d!  of a simplex given by d+1 points"""
    Mx = np.array([[pts[i][k] - pts[d][k] for k in range(d)] for i in range(d)], dtype=object)
    return abs(symnp.det(Mx) if isinstance(symnp.det(Mx), S) else S(lift(symnp.det(Mx)))) / math.factorial(d)


def _uniform_over_simplices(P, d, seed, engine, N=20000, pval=1e-9):
    """replay oracle on the real code (real qhull, real generators): N samples must fall into the simplices of a reference triangulation of the hull in proportion
    to their volumes (chi-square, deterministic per seed; a correct sampler fails with probability < pval).  Independent of the order of the random draws."""
    from dreye.api.sampling import sample_in_hull
    from scipy.spatial import ConvexHull, Delaunay
    from scipy.stats import chi2
    P = np.asarray(P, dtype=float)
    try:
        hv = P[ConvexHull(P).vertices]; tri = Delaunay(hv)
    except Exception:
        return True  # degenerate cloud: nothing to compare against
    vols = np.array([abs(np.linalg.det(hv[sx][1:] - hv[sx][0])) for sx in tri.simplices])
    if len(vols) < 2 or vols.min() / vols.sum() * N < 50:
        return True
    big = np.asarray(sample_in_hull(P, N, seed=seed, engine=engine))
    loc = tri.find_simplex(big, tol=1e-9)
    if (loc < 0).sum() > 1e-3 * N:
        return False
    cnt = np.bincount(loc[loc >= 0], minlength=len(vols)).astype(float)
    exp = vols / vols.sum() * cnt.sum()
    stat = float(((cnt - exp) ** 2 / exp).sum())
    return bool(stat <= chi2.isf(pval, len(vols) - 1))


def sample_case(M, npts, d, simplices, indices, seed=7, engine=None, counts=None, vertex_order=None):
    from dreye.api.sampling import sample_in_hull
    n = len(indices) if engine is None else int(sum(counts))
    P = M.real("P", (npts, d), sample=lambda r, s: r.uniform(0.0, 2.0, size=s))
    REC.clear()
    REC["plan_simplices"] = simplices; REC["plan_indices"] = list(indices); REC["plan_counts"] = list(counts or [])
    REC["plan_vertices"] = vertex_order
    order = list(vertex_order) if vertex_order is not None else list(range(npts))
    # the triangulation's simplices index the hull points (the cloud re-ordered by `vertices`)
    simplices = [[order[v] for v in sx] for sx in simplices]
    if M.symbolic:
        vols = [_vol([list(np.asarray(P)[i]) for i in sx], d) for sx in simplices]
        tot = fs._sum(vols)
        M.assume(tot > 0)
        out = np.asarray(sample_in_hull(P, n, seed=seed, engine=engine))
    else:
        out = np.asarray(sample_in_hull(P, n, seed=seed, engine=engine))
        out2 = np.asarray(sample_in_hull(P, n, seed=seed, engine=engine))
        ok_shape = out.shape == (n, d)
        goals = {"exactly n samples of the cloud's dimension": ok_shape, "identical seeds give identical samples": bool(np.array_equal(out, out2))}
        if ok_shape:
            goals["every sample lies in the convex hull of the cloud"] = all(_lp_in(np.asarray(P, dtype=float), out[i]) for i in range(n))
            ok_u = _uniform_over_simplices(P, d, seed, engine)
            # (one oracle for the clauses that pin the sampling scheme down in the symbolic runs: same labels, so that their counterexamples replay against it)
            goals["a simplex is chosen with probability volume / total volume"] = ok_u
            for i in range(n):
                goals[f"sample{i}: convex combination (weights >= 0, sum 1) of the vertices of its simplex, hence in the hull"] = ok_u
        return goals
    goals = {"exactly n samples of the cloud's dimension": out.shape == (n, d)}
    if out.shape != (n, d):
        return goals
    goals["all randomness is drawn from one generator built from the seed"] = REC.get("rng_seeds") == [seed]
    idx = list(indices) if engine is None else [k for k, c in enumerate(counts) for _ in range(int(c))]
    if engine is None:
        dr = REC.get("dirichlet", {})
        goals["barycentric weights ~ Dirichlet(1,...,1) with d+1 components, one row per sample, drawn from the seeded generator"] = (
            dr.get("alpha") == [1] * (d + 1) and dr.get("size") == n and isinstance(dr.get("random_state"), _Rng))
        ch = REC.get("choice", {})
        p = ch.get("p")
        goals["simplex index drawn among all simplices, n at a time"] = ch.get("a") == len(simplices) and ch.get("size") == n and p is not None and len(np.asarray(p)) == len(simplices)
        if p is not None and len(np.asarray(p)) == len(simplices):
            goals["a simplex is chosen with probability volume / total volume"] = M.eq(np.asarray(p), np.array([v / tot for v in vols], dtype=object))
        W = np.array([[S(z3.Real(f"dir_{i}_{j}")) for j in range(d + 1)] for i in range(n)], dtype=object)
    else:
        mq = REC.get("multinomial", {})
        engs = REC.get("engines", [])
        goals["QMC point engine has d+1 dimensions and is seeded from the generator"] = len(engs) >= 1 and engs[0]["d"] == d + 1 and isinstance(engs[0]["seed"], _Rng)
        goals["the allocation of samples to simplices uses volume / total volume, n trials, and an engine seeded from the generator"] = (
            mq.get("n_trials") == n and isinstance(mq.get("seed"), _Rng) and isinstance(mq.get("engine"), _Engine) and isinstance(mq["engine"].seed, _Rng) and mq["engine"].d == 1)
        if mq.get("pvals") is not None and len(np.asarray(mq["pvals"])) == len(simplices):
            goals["a simplex is allocated samples in proportion volume / total volume"] = M.eq(np.asarray(mq["pvals"]), np.array([v / tot for v in vols], dtype=object))
        # weights: engine rows L1-normalised, drawn per simplex in order
        W = np.empty((n, d + 1), dtype=object)
        row = 0
        draw = 0
        for k, c in enumerate(counts):
            c = int(c)
            pts = [[S(z3.Real(f"qmc{draw}_{i}_{j}")) for j in range(d + 1)] for i in range(c)]
            draw += 1
            for i in range(c):
                tot_i = fs._sum(pts[i])
                for j in range(d + 1):
                    W[row, j] = pts[i][j] / tot_i
                row += 1
    for i in range(n):
        verts = [list(np.asarray(P)[v]) for v in simplices[idx[i]]]
        spec = [fs._sum([W[i, j] * verts[j][k] for j in range(d + 1)]) for k in range(d)]
        goals[f"sample{i}: convex combination (weights >= 0, sum 1) of the vertices of its simplex, hence in the hull"] = M.conj(
            M.eq(out[i], np.array(spec, dtype=object)), M.le(0, np.array(list(W[i]), dtype=object)), M.eq(fs._sum(list(W[i])), 1))
    return goals


def _lp_in(P, x):
    from scipy.optimize import linprog
    n = P.shape[0]
    A = np.vstack([P.T, np.ones(n)]); b = np.append(x, 1.0)
    G = np.vstack([np.hstack([A, -np.ones((A.shape[0], 1))]), np.hstack([-A, -np.ones((A.shape[0], 1))])]); h = np.concatenate([b, -b])
    r = linprog(np.append(np.zeros(n), 1.0), A_ub=G, b_ub=h, bounds=[(0, None)] * (n + 1), method="highs")
    return bool(r.status == 0 and r.fun <= 1e-7)


def _cone_member(Pexp, y):
    """y is a non-negative combination of the rows of Pexp (float mode)"""
    from scipy.optimize import nnls
    Pexp = np.asarray(Pexp, dtype=float); y = np.asarray(y, dtype=float)
    _, res = nnls(Pexp.T, y)
    return bool(res <= 1e-7 * max(1.0, float(np.linalg.norm(y))))


def estimator_case(M, m, nsrc, l1, indices, simplices, relative=True, concrete=False):
    """estimator wiring: plain samples come from the gamut cloud; with l1 every sample has that total capture"""
    from dreye.api.estimator import ReceptorEstimator
    if concrete:
        # a concrete well-conditioned system (absolute capture has no baseline: a symbolic system would include flat / empty chromatic clouds, which qhull rejects)
        cA = np.array([[1.0, 0.5, 0.2], [0.3, 1.0, 0.4], [0.2, 0.3, 1.0]])[:m, :nsrc]
        cv = dict(K=np.array([1.0, 0.5, 2.0])[:m], base=np.array([0.1, 0.2, 0.3])[:m], lb=np.array([0.1, 0.2, 0.1])[:nsrc], ub=np.array([1.0, 1.5, 2.0])[:nsrc])
        A = symnp.const(cA) if M.symbolic else cA
        K, base, lb, ub = [(symnp.const(cv[k]) if M.symbolic else cv[k]) for k in ("K", "base", "lb", "ub")]
        lbl, ubl = list(np.asarray(lb)), list(np.asarray(ub))
    else:
        A, K, base, lb, ub, lbl, ubl = fs.mk_system(M, m, nsrc, "vec", "vec", "pos", "fin")
        fs.assume_nonneg_system(M, A, K, base, np.zeros((1, 1)), "vec")
        for v in np.asarray(base):
            M.assume(v > 0)
    est = ReceptorEstimator(np.ones((m, 2)), K=K, baseline=base)
    est.A = A; est.Epsilon = "heteroscedastic"; est.lb = lb; est.ub = ub
    n = len(indices)
    REC.clear()
    REC["plan_simplices"] = simplices; REC["plan_indices"] = list(indices); REC["plan_counts"] = []
    l1v = None
    if l1:
        l1v = M.real("l1", (), sample=lambda r, s: r.uniform(1.0, 3.0)); M.assume(l1v > 0)
    kwr = {} if relative else dict(relative=False)
    from vf.props.c03 import corners, corner_x
    # the gamut cloud of the requested capture kind: relative = K (A x + baseline), absolute = A x  (x over the corners of the intensity box)
    Aeff, beff = fs.effective_model(A, K, base, "vec") if relative else fs.effective_model(A, None, None, "none")
    cs = corners(nsrc)
    Pexp = [fs.predict(Aeff, beff, corner_x(c_, lbl, ubl)) for c_ in cs]
    if not M.symbolic:
        out = np.asarray(est.sample_in_hull(n=n, seed=3, l1=l1v, **kwr))
        goals = {"exactly n samples": out.shape == (n, m)}
        if l1:
            goals["every sample has the requested total capture"] = bool(np.allclose(out.sum(axis=1), float(l1v), rtol=1e-9))
            # on the real code: 200 samples, each a non-negative combination of the gamut cloud of the requested capture kind (its chromaticity is in the chromatic gamut)
            many = np.asarray(est.sample_in_hull(n=200, seed=3, l1=l1v, **kwr))
            goals["the chromatic cloud that is triangulated is the chromatic image of the gamut cloud of the requested capture kind"] = all(_cone_member(Pexp, many[i]) for i in range(200))
        else:
            from vf.props.c03 import lp_member
            goals["every sample is reproducible by in-bound intensities"] = all(lp_member(Aeff, beff, list(out[i]), lbl, ubl) for i in range(n))
        return goals
    out = np.asarray(est.sample_in_hull(n=n, seed=3, l1=l1v, **kwr))
    goals = {"exactly n samples": out.shape == (n, m)}
    if out.shape != (n, m):
        return goals
    if l1:
        goals["every sample has the requested total capture"] = M.eq(np.array([fs._sum(list(out[i])) for i in range(n)], dtype=object), np.array([l1v] * n, dtype=object))
        from dreye.api.barycentric import barycentric_dim_reduction
        hp = REC.get("hull_P", [])
        chro = np.asarray(barycentric_dim_reduction(np.array(Pexp, dtype=object).view(symnp.SymArray)))
        goals["the chromatic cloud that is triangulated is the chromatic image of the gamut cloud of the requested capture kind"] = (
            len(hp) == 1 and hp[0].shape == chro.shape and M.eq(hp[0], chro))
        # (that the chromaticity is the Dirichlet-weighted combination of the vertex chromaticities is not decided: the inverse barycentric map with
        #  its sqrt constants over symbolic corner sums is out of reach for 3 receptors -- stated as outside)
    else:
        # sample_i = sum_j w_ij P[s_ij]  with P the corner captures  =>  reproducible by x = sum_j w_ij corner_j (in bounds by convexity)
        for i in range(n):
            w = [S(z3.Real(f"dir_{i}_{j}")) for j in range(m + 1)]
            xs = [fs._sum([w[j] * corner_x(cs[simplices[indices[i]][j]], lbl, ubl)[k] for j in range(m + 1)]) for k in range(nsrc)]
            goals[f"sample{i}: reproducible by in-bound intensities (convex combination of box corners)"] = M.conj(
                fs.in_bounds(M, xs, lbl, ubl), M.eq(out[i], np.array(fs.predict(Aeff, beff, xs), dtype=object)))
    return goals


def cases(tier, seed):
    C = []
    big = tier == "thorough"

    def add(name, body, **kw):
        C.append(dict(name=name, body=body, kwargs=kw, opts=dict(timeout_ms=60000, n_validate=2, max_paths=200)))
    tri2 = [[0, 1, 2], [0, 2, 3]]
    tri3 = [[0, 1, 2], [0, 2, 3], [0, 3, 4]]
    for n in (1, 2, 3) + ((4,) if big else ()):
        for idx in itertools.product(range(2), repeat=n):
            add(f"2-D 4 points 2 triangles n={n} plan={idx}", "sample_case", npts=4, d=2, simplices=tri2, indices=list(idx))
    # qhull lists the hull vertices in its own order (counter-clockwise in 2-D): the triangulation indexes that re-ordered cloud
    add("2-D 4 points 2 triangles n=2, hull vertices in the order [2,0,3,1]", "sample_case", npts=4, d=2, simplices=tri2, indices=[0, 1], vertex_order=[2, 0, 3, 1])
    add("3-D 5 points 2 tetrahedra n=2, hull vertices in the order [4,3,2,1,0]", "sample_case", npts=5, d=3, simplices=[[0, 1, 2, 3], [1, 2, 3, 4]], indices=[1, 0], vertex_order=[4, 3, 2, 1, 0])
    add("QMC Halton 2-D 2 triangles counts=[1,1], hull vertices in the order [1,2,3,0]", "sample_case", npts=4, d=2, simplices=tri2, indices=[], engine="Halton", counts=[1, 1],
        vertex_order=[1, 2, 3, 0])
    # the seed 0 is a seed like any other
    add("2-D 4 points 2 triangles n=2 seed=0", "sample_case", npts=4, d=2, simplices=tri2, indices=[1, 0], seed=0)
    add("QMC Sobol 2-D 2 triangles counts=[1,1] seed=0", "sample_case", npts=4, d=2, simplices=tri2, indices=[], engine="Sobol", counts=[1, 1], seed=0)
    add("2-D 3 points 1 triangle n=2", "sample_case", npts=3, d=2, simplices=[[0, 1, 2]], indices=[0, 0])
    add("2-D 5 points 3 triangles n=3", "sample_case", npts=5, d=2, simplices=tri3, indices=[2, 0, 1])
    add("3-D 5 points 2 tetrahedra n=2", "sample_case", npts=5, d=3, simplices=[[0, 1, 2, 3], [1, 2, 3, 4]], indices=[1, 0])
    for eng in ("Sobol", "Halton", "LHC"):
        for counts in ([2, 0], [1, 1], [0, 2], [2, 1]):
            add(f"QMC {eng} 2-D 2 triangles counts={counts}", "sample_case", npts=4, d=2, simplices=tri2, indices=[], engine=eng, counts=counts)
    add("QMC Sobol 3-D 2 tetrahedra counts=[1,2]", "sample_case", npts=5, d=3, simplices=[[0, 1, 2, 3], [1, 2, 3, 4]], indices=[], engine="Sobol", counts=[1, 2])
    add("estimator 2x2 plain n=2", "estimator_case", m=2, nsrc=2, l1=False, indices=[0, 1], simplices=[[0, 1, 2], [1, 2, 3]])
    add("estimator 2x2 l1 n=2", "estimator_case", m=2, nsrc=2, l1=True, indices=[0, 0], simplices=[[0, 1]])
    add("estimator 3x2 l1 n=2", "estimator_case", m=3, nsrc=2, l1=True, indices=[0, 1], simplices=[[0, 1, 2], [1, 2, 3]])
    # (absolute capture has no baseline: with fewer sources than receptors the gamut cone is flat and qhull rejects its chromatic image -- three sources here)
    add("estimator 3x3 (concrete system) l1 n=2 absolute capture", "estimator_case", m=3, nsrc=3, l1=True, indices=[0, 1], simplices=[[0, 1, 2], [1, 2, 3]], relative=False, concrete=True)
    add("estimator 3x3 (concrete system) l1 n=2 relative capture", "estimator_case", m=3, nsrc=3, l1=True, indices=[1, 0], simplices=[[0, 1, 2], [1, 2, 3]], relative=True, concrete=True)
    add("estimator 2x2 plain n=2 absolute capture", "estimator_case", m=2, nsrc=2, l1=False, indices=[0, 1], simplices=[[0, 1, 2], [1, 2, 3]], relative=False)
    return C
