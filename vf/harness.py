"""Harness: one *case body* is used three ways.

  sym   : inputs are symbolic, the real code runs under the patches (NPProxy, stubs), every path is
          explored and every goal is handed to z3  (unsat of pc & not goal == holds for all inputs)
  const : the same, with random exact-rational constants as inputs (translator validation, patched)
  float : the real, unpatched code on float64 inputs; goals are evaluated numerically with a
          tolerance (replay of solver models, and the float half of translator validation)

Exit codes of a check: 0 = every obligation discharged (or only known findings), 1 = a replayed
violation, 2 = inconclusive (unknown / vacuous / engine error / model did not reproduce).
"""
import contextlib
import fractions
import hashlib
import importlib
import json
import os
import sys
import time
import traceback

import numpy as np
import z3

from . import symnp
from .symnp import S, SB, Engine, Inconclusive, SymArray, const, lift, sym, wrap

ROOT = os.path.dirname(os.path.dirname(os.path.abspath(__file__)))

DREYE_NP_MODULES = [
    "dreye.api.capture", "dreye.api.utils", "dreye.api.convex", "dreye.api.estimator",
    "dreye.api.barycentric", "dreye.api.spherical", "dreye.api.project", "dreye.api.sampling",
    "dreye.api.metrics", "dreye.api.domain", "dreye.api.optimize.lsq_linear",
    "dreye.api.optimize.parallel", "dreye.api.optimize.utils", "dreye.api.units.convert",
]


def _scipy_norm_stub(arr, ord=None, axis=None, keepdims=False, **k):
    if symnp._has_sym(arr):
        return symnp.snorm(arr, ord, axis, keepdims)
    import scipy.linalg
    return scipy.linalg.norm(arr, ord=ord, axis=axis, keepdims=keepdims)


def _block_diag_stub(*arrs):
    import scipy.linalg
    if any(symnp._has_sym(a) for a in arrs) or Engine.cur is not None:
        arrs = [np.atleast_2d(symnp._exactify(a)) for a in arrs]
        r = sum(a.shape[0] for a in arrs); c = sum(a.shape[1] for a in arrs)
        out = np.empty((r, c), dtype=object); out[...] = S(z3.RealVal(0))
        i = j = 0
        for a in arrs:
            out[i:i + a.shape[0], j:j + a.shape[1]] = a
            i += a.shape[0]; j += a.shape[1]
        return out.view(SymArray)
    return scipy.linalg.block_diag(*arrs)


def standard_patches():
    P = []
    prox = symnp.NPProxy()
    for name in DREYE_NP_MODULES:
        m = importlib.import_module(name)
        if hasattr(m, "np"):
            P.append((m, "np", prox))
    u = importlib.import_module("dreye.api.utils")
    P.append((u, "norm", _scipy_norm_stub))
    pl = importlib.import_module("dreye.api.optimize.parallel")
    P.append((pl, "block_diag", _block_diag_stub))
    return P


@contextlib.contextmanager
def patched(patches):
    saved = []
    try:
        for mod, attr, val in patches:
            saved.append((mod, attr, getattr(mod, attr, _MISSING)))
            setattr(mod, attr, val)
        yield
    finally:
        for mod, attr, old in reversed(saved):
            if old is _MISSING:
                delattr(mod, attr)
            else:
                setattr(mod, attr, old)


_MISSING = object()


class SBR(SB):
    """symbolic bool that also carries a 'violated with a margin' formula"""
    __slots__ = ("robust_neg",)

    def __init__(self, t):
        SB.__init__(self, t)
        self.robust_neg = None


def _zabs(t):
    return z3.If(t >= 0, t, -t)


class SkipSample(Exception):
    """a float/const sample does not satisfy the case's assumptions"""


def with_purity(m, goals):
    if isinstance(goals, dict) and m.snaps and M.PURITY not in goals:
        goals = dict(goals)
        goals[M.PURITY] = m.inputs_untouched()
    return goals


class M:
    """mode object handed to a case body"""

    def __init__(self, mode, values=None, rng=None, tol=1e-6):
        self.mode = mode           # 'sym' | 'const' | 'float'
        self.values = values or {}
        self.inputs = {}           # name -> array as created (sym arrays in sym mode)
        self.snaps = {}            # name -> element-wise copy taken at creation
        self.rng = rng
        self.observed = {}
        self.tol = tol
        self.tags = set()          # reachability tags reported by the body (e.g. 'padded-batch')
        self.stub_hits = {}

    # ---- inputs
    @property
    def symbolic(self):
        return self.mode in ("sym", "const")

    def real(self, name, shape=(), sample=None):
        """a real-valued input. `sample(rng, shape)` gives values for const/float modes."""
        if self.mode == "sym":
            a = sym(name, tuple(shape))
        else:
            if name not in self.values:
                if sample is None:
                    v = self.rng.uniform(0.5, 2.0, size=shape)
                else:
                    v = sample(self.rng, shape)
                v = np.vectorize(lambda x: float("%.4g" % x))(np.asarray(v, dtype=float))  # 4 significant digits (short exact rationals)
                self.values[name] = v if shape != () else float(v)
            v = self.values[name]
            a = const(v) if self.mode == "const" else (np.array(v, dtype=float) if shape != () else float(v))
        self.inputs[name] = a
        if isinstance(a, np.ndarray):
            self.snaps[name] = np.array(a, dtype=a.dtype, copy=True).view(np.ndarray)
        return a

    PURITY = "the arrays handed in by the caller are not modified"

    def inputs_untouched(self):
        """generic clause of every case: no call of the library wrote into an input array created by M.real (views included)"""
        ok = []
        for name, snap in self.snaps.items():
            cur = np.asarray(self.inputs[name]).view(np.ndarray)
            if cur.shape != snap.shape:
                return False
            if self.mode == "float":
                if not np.array_equal(cur, snap):
                    return False
                continue
            for x, y in zip(cur.ravel(), snap.ravel()):
                if x is y:
                    continue
                tx, ty = lift(x), lift(y)
                if tx.eq(ty):
                    continue
                ok.append(tx == ty)
        if self.mode == "float" or not ok:
            return True
        return SBR(z3.And(ok))

    def assume(self, cond):
        if self.mode == "float":
            if isinstance(cond, np.ndarray):
                cond = bool(np.all(cond))
            if not cond:
                raise SkipSample()
            return
        if isinstance(cond, np.ndarray):
            cond = symnp.sall(cond)
        if self.mode == "const":
            c = cond.t if isinstance(cond, SB) else cond
            if isinstance(c, (bool, np.bool_)):
                if not c:
                    raise SkipSample()
                return
            c = z3.simplify(c)
            if z3.is_false(c):
                raise SkipSample()
            symnp.E().assume(c)
            return
        symnp.E().assume(cond)

    def tag(self, t):
        self.tags.add(t)

    def hit(self, stub):
        self.stub_hits[stub] = self.stub_hits.get(stub, 0) + 1

    def observe(self, name, arr):
        self.observed[name] = arr

    # ---- goal constructors (exact in sym/const mode, toleranced in float mode)
    def eq(self, a, b):
        if self.mode == "float":
            a = np.asarray(a, dtype=float); b = np.asarray(b, dtype=float)
            if a.shape != b.shape:
                try:
                    a, b = np.broadcast_arrays(a, b)
                except ValueError:
                    return False
            scale = 1.0 + np.abs(a) + np.abs(b)
            return bool(np.all(np.abs(a - b) <= self.tol * scale))
        a = np.asarray(a, dtype=object); b = np.asarray(b, dtype=object)
        if a.shape != b.shape:
            a, b = np.broadcast_arrays(a, b)
        g = SBR(z3.And([lift(x) == lift(y) for x, y in zip(a.ravel(), b.ravel())]))
        # "violated with a margin" (used only to pick a well-separated model for the replay)
        g.robust_neg = z3.Or([_zabs(lift(x) - lift(y)) > z3.RealVal("1/100") * (1 + _zabs(lift(y))) for x, y in zip(a.ravel(), b.ravel())])
        return g

    def le(self, a, b, slack=0.0):
        """a <= b (+ slack only in float mode)"""
        if self.mode == "float":
            a = np.asarray(a, dtype=float); b = np.asarray(b, dtype=float)
            scale = 1.0 + np.abs(a) + np.abs(b)
            return bool(np.all(a <= b + self.tol * scale + slack))
        a = np.asarray(a, dtype=object); b = np.asarray(b, dtype=object)
        a, b = np.broadcast_arrays(a, b)
        g = SBR(z3.And([lift(x) <= lift(y) for x, y in zip(a.ravel(), b.ravel())]))
        g.robust_neg = z3.Or([lift(x) > lift(y) + z3.RealVal("1/20") * (1 + _zabs(lift(y))) for x, y in zip(a.ravel(), b.ravel())])
        return g

    def close(self, a, b, rel=1e-12):
        """|a - b| <= rel * |b| element-wise (float mode: rel is floored at the float tolerance of the mode)"""
        if self.mode == "float":
            a = np.asarray(a, dtype=float); b = np.asarray(b, dtype=float)
            return bool(np.all(np.abs(a - b) <= max(rel, self.tol) * np.abs(b) + 1e-300))
        a = np.asarray(a, dtype=object); b = np.asarray(b, dtype=object)
        a, b = np.broadcast_arrays(a, b)
        r = symnp.rat(fractions.Fraction(rel))
        g = SBR(z3.And([z3.And(lift(x) - lift(y) <= r * _zabs(lift(y)), lift(y) - lift(x) <= r * _zabs(lift(y))) for x, y in zip(a.ravel(), b.ravel())]))
        g.robust_neg = z3.Or([_zabs(lift(x) - lift(y)) > z3.RealVal("1/100") * (1 + _zabs(lift(y))) for x, y in zip(a.ravel(), b.ravel())])
        return g

    def conj(self, *gs):
        if self.mode == "float":
            return all(bool(g) for g in gs)
        return SB(z3.And([symnp._tob(g) for g in gs]))

    def implies(self, h, g):
        if self.mode == "float":
            return (not bool(h)) or bool(g)
        r = SBR(z3.Implies(symnp._tob(h), symnp._tob(g)))
        if getattr(g, "robust_neg", None) is not None:
            r.robust_neg = z3.And(symnp._tob(h), g.robust_neg)
        return r


def _jsonable(v):
    if isinstance(v, np.ndarray):
        return v.tolist()
    if isinstance(v, (np.floating, np.integer)):
        return v.item()
    if isinstance(v, fractions.Fraction):
        return float(v)
    if isinstance(v, dict):
        return {k: _jsonable(x) for k, x in v.items()}
    if isinstance(v, (list, tuple)):
        return [_jsonable(x) for x in v]
    return v


def model_to_values(model, inputs):
    vals = {}
    for name, a in inputs.items():
        vals[name] = symnp.model_array(model, a)
    return vals


def _goal_str(g, n=160):
    t = g.t if isinstance(g, SB) else g
    s = str(t).replace("\n", " ")
    return " ".join(s.split())[:n]


def isolated(fn, args, timeout, default):
    """run fn(*args) in a forked child with a wall-clock limit: replays / float runs execute compiled code (qhull, solvers) on arbitrary inputs
    and must not be able to hang or crash the check.  (os.fork directly: pool workers are daemonic and may not use multiprocessing.Process)"""
    import pickle
    import select
    import signal
    rd, wr = os.pipe()
    pid = os.fork()
    if pid == 0:  # child
        try:
            os.close(rd)
            try:
                out = fn(*args)
            except BaseException as e:  # noqa
                out = ("__error__", repr(e))
            try:
                data = pickle.dumps(out)
            except Exception as e:  # noqa
                data = pickle.dumps(("__error__", "unpicklable result: " + repr(e)))
            with os.fdopen(wr, "wb") as f:
                f.write(data)
        finally:
            os._exit(0)
    os.close(wr)
    chunks = []
    deadline = time.time() + timeout
    done = False
    while True:
        left = deadline - time.time()
        if left <= 0:
            break
        r, _, _ = select.select([rd], [], [], min(left, 1.0))
        if r:
            c = os.read(rd, 1 << 20)
            if not c:
                done = True
                break
            chunks.append(c)
    os.close(rd)
    if not done:
        try:
            os.kill(pid, signal.SIGKILL)
        except ProcessLookupError:
            pass
    try:
        os.waitpid(pid, 0)
    except ChildProcessError:
        pass
    if not done or not chunks:
        return default
    try:
        out = pickle.loads(b"".join(chunks))
    except Exception:
        return default
    if isinstance(out, tuple) and len(out) == 2 and out[0] == "__error__":
        return default
    return out


class CaseResult(dict):
    pass


def split_goal(g):
    """goal | (goal, hyps) | (goal, hyps, opts)"""
    hyps, opts = [], {}
    if isinstance(g, tuple):
        if len(g) == 3:
            g, hyps, opts = g
        else:
            g, hyps = g
    hyps = [h.t if isinstance(h, SB) else h for h in hyps]
    return g, hyps, opts


def _parts(g):
    """split a goal into independently provable conjuncts:  And(..) and  h => And(..)"""
    if z3.is_and(g):
        out = []
        for c in g.children():
            out.extend(_parts(c))
        return out
    if z3.is_implies(g) and z3.is_and(g.arg(1)):
        return [z3.Implies(g.arg(0), c) for c in _parts(g.arg(1))]
    return [g]


def prove_split(eng, gt, hyps, pc_upto=None):
    parts = _parts(gt)
    if len(parts) <= 1:
        return eng.prove(gt, extra=hyps, pc_upto=pc_upto)
    worst = "unsat"
    for p_ in parts:
        v, model = eng.prove(p_, extra=hyps, pc_upto=pc_upto)
        if v == "sat":
            return v, model
        if v != "unsat":
            worst = v
    return worst, None


def run_case(prop_id, name, body, kwargs, patches, *, timeout_ms=30000, max_paths=20000, n_validate=2, seed=0,
             expect_tags=(), partial_ok=False, skip_sym=False, algebraic=False):
    """Run one case in sym mode, then translator validation.  Returns a CaseResult (plain dict)."""
    t0 = time.time()
    res = CaseResult(case=name, kwargs={k: (v if isinstance(v, (int, float, str, bool, type(None))) else str(v)) for k, v in kwargs.items()},
                     paths=0, goals=0, unsat=0, sat=0, unknown=0, nontrivial=0, exc_paths=0, reachable=0,
                     solver_s=0.0, violations=[], inconclusive=[], samples=[], tags=[], stub_hits={}, validate={})
    eng = Engine(timeout_ms=timeout_ms, max_paths=max_paths)
    eng.partial_ok = partial_ok
    eng.algebraic_sqrt = algebraic
    seen_goals = set()
    tags = set()
    try:
        with patched(patches):
            m = None

            def fn():
                nonlocal m
                m = M("sym")
                return with_purity(m, body(m, **kwargs))

            for kind, out in (() if skip_sym else eng.explore(fn)):
                res["paths"] += 1
                tags |= m.tags
                for k, v in m.stub_hits.items():
                    res["stub_hits"][k] = res["stub_hits"].get(k, 0) + v
                if kind == "exc":
                    res["exc_paths"] += 1
                    verdict, model = eng.solve([])
                    label = f"no-exception[{type(out).__name__}: {str(out)[:80]}]"
                    if verdict == "sat":
                        res["reachable"] += 1
                        res["sat"] += 1
                        res["violations"].append(dict(label=label, values=_jsonable(model_to_values(model, m.inputs)),
                                                      trace="".join(traceback.format_exception(out))[-1500:]))
                    elif verdict == "unknown":
                        res["unknown"] += 1
                        res["inconclusive"].append(dict(label=label, why="path feasibility unknown"))
                    continue
                feas = eng.feasible(timeout_ms=5000)
                if feas == "sat":
                    res["reachable"] += 1
                elif feas == "unsat":
                    continue
                else:
                    res["reachable_unknown"] = res.get("reachable_unknown", 0) + 1
                goals = out or {}
                for label, g in goals.items():
                    g, hyps, gopts = split_goal(g)
                    res["goals"] += 1
                    gt = g.t if isinstance(g, SB) else g
                    if isinstance(gt, (bool, np.bool_)):
                        gt = z3.BoolVal(bool(gt))
                    simp = z3.simplify(gt)
                    key = hashlib.sha1(simp.sexpr().encode()).hexdigest()
                    if not z3.is_true(simp) and key not in seen_goals:
                        seen_goals.add(key)
                        res["nontrivial"] += 1
                        if len(res["samples"]) < 2:
                            res["samples"].append(dict(case=name, label=label, obligation=_goal_str(simp)))
                    _t = time.time()
                    verdict, model = prove_split(eng, gt, hyps, gopts.get("pc_upto"))
                    res.setdefault("slow", []).append((round(time.time() - _t, 2), label))
                    if verdict == "unsat":
                        res["unsat"] += 1
                    elif verdict == "sat":
                        res["sat"] += 1
                        vio = dict(label=label, values=_jsonable(model_to_values(model, m.inputs)))
                        rn = getattr(g, "robust_neg", None)
                        if rn is not None:
                            # a second, well-scaled and well-separated model gives the replay (float64, real solvers) a fair chance
                            nice = []
                            for a_ in m.inputs.values():
                                for t_ in symnp.terms(a_):
                                    nice.append(z3.And(t_ >= -20, t_ <= 20))
                            v2, model2 = eng.solve(hyps + [rn] + nice, timeout_ms=15000, pc_upto=gopts.get("pc_upto"))
                            if v2 == "sat":
                                vio["alt_values"] = _jsonable(model_to_values(model2, m.inputs))
                        res["violations"].append(vio)
                    else:
                        res["unknown"] += 1
                        res["inconclusive"].append(dict(label=label, why="solver returned unknown"))
    except Inconclusive as e:
        res["inconclusive"].append(dict(label="engine", why=str(e)))
    except Exception as e:  # harness/engine error: fail closed
        res["inconclusive"].append(dict(label="engine-error", why="".join(traceback.format_exception(e))[-1500:]))
    res["tags"] = sorted(tags)
    res["concrete_exact_only"] = bool(skip_sym)
    for t in (() if skip_sym else expect_tags):
        if t not in tags:
            res["inconclusive"].append(dict(label="reachability", why=f"path class '{t}' was never reached"))
    res["truncated_paths_left"] = eng.stats.get("truncated", 0)
    res["slow"] = sorted(res.get("slow", []), reverse=True)[:3]
    res["abstract_unsat"] = eng.stats.get("abstract_unsat", 0)
    res["solver_s"] = round(eng.stats["solver_s"], 3)
    res["feas_queries"] = eng.stats["feas_queries"]
    res["queries"] = eng.stats["queries"]
    # ---- translator validation: const (patched) vs float (unpatched) on random inputs
    res["validate"] = validate_case(body, kwargs, patches, n=n_validate, seed=seed, timeout_ms=timeout_ms, algebraic=algebraic)
    # vacuity guard: some path must be witnessed satisfiable by the solver, or reached by a concrete (const-mode) execution
    if res["reachable"] == 0 and res["validate"].get("const_reached", 0) == 0 and not res["inconclusive"]:
        res["inconclusive"].append(dict(label="vacuity", why="no path reaching the goals was witnessed feasible (solver sat or concrete run)"))
    res["wall_s"] = round(time.time() - t0, 3)
    return res


def run_float(body, kwargs, values, tol=1e-6):
    """real code, real numpy, no patches. returns (goals: label->bool, observed, exception)"""
    m = M("float", values=dict(values), rng=np.random.default_rng(0), tol=tol)
    try:
        goals = with_purity(m, body(m, **kwargs)) or {}
    except SkipSample:
        raise
    except Exception as e:
        return None, m, e
    out = {}
    for k, g in goals.items():
        out[k] = bool(split_goal(g)[0])
    return out, m, None


class _ExcProxy(Exception):
    """exception of the float run, carried across the process boundary"""

    def __init__(self, name, text):
        Exception.__init__(self, text)
        self.name = name


def _exc_name(e):
    return getattr(e, "name", type(e).__name__)


def _float_run(body, kwargs, seed):
    fm = M("float", rng=np.random.default_rng(seed))
    try:
        goals = with_purity(fm, body(fm, **kwargs)) or {}
        exc = None
    except SkipSample:
        return ("skip",)
    except Exception as e:
        goals, exc = {}, (type(e).__name__, str(e)[:300])
    obs = {}
    for k, v in fm.observed.items():
        try:
            obs[k] = np.asarray(v, dtype=float)
        except Exception:
            pass
    return ("ok", fm.values, {k: bool(split_goal(g)[0]) for k, g in goals.items()}, obs, exc)


def validate_case(body, kwargs, patches, n=2, seed=0, timeout_ms=30000, algebraic=False):
    """translator validation: the same body on the same random inputs, (a) real code / real numpy / floats,
    (b) patched code on exact rational constants.  Goals must hold in both, observables must agree."""
    rng = np.random.default_rng(seed + 12345)
    info = dict(runs=0, skipped=0, observed_compared=0, mismatch=[])
    tries = 0
    while info["runs"] < n and tries < 6 * max(n, 1):
        tries += 1
        # the float half runs real compiled code (qhull, solvers): isolate it with a time limit
        fr = isolated(_float_run, (body, kwargs, int(rng.integers(0, 2 ** 31))), 300, ("timeout",))
        if fr[0] == "skip":
            info["skipped"] += 1
            continue
        if fr[0] == "timeout":
            info["mismatch"].append(dict(kind="float-timeout", why="the real code did not return within 300 s on a sampled input"))
            break
        _, values, fgoals, fobs, fexc_s = fr
        fexc = None if fexc_s is None else _ExcProxy(*fexc_s)
        fm = M("float", values=values)
        fm.observed = fobs
        info["runs"] += 1
        for label, g in fgoals.items():
            if not bool(g):
                info["mismatch"].append(dict(kind="float-goal", label=label, values=_jsonable(values)))
        # const run (patched)
        eng = Engine(timeout_ms=timeout_ms, max_paths=500)
        eng.const_mode = True
        eng.algebraic_sqrt = algebraic
        cexc = None
        cobs = {}
        try:
            with patched(patches):
                cur = {}

                def fn():
                    cur["m"] = M("const", values=dict(values), rng=rng)
                    return with_purity(cur["m"], body(cur["m"], **kwargs))

                for kind, out in eng.explore(fn):
                    if kind == "exc":
                        if isinstance(out, SkipSample):
                            continue
                        cexc = out
                        continue
                    fz, model = eng.solve([], timeout_ms=10000)
                    if fz == "unsat":
                        continue
                    info["const_reached"] = info.get("const_reached", 0) + 1
                    for k, v in cur["m"].observed.items():
                        try:
                            if model is not None:
                                if symnp._has_sym(v):
                                    # only values fully determined by the (constant) inputs are comparable; outputs of contract stubs are free symbols
                                    free = set()
                                    for t_ in symnp.terms(np.asarray(v, dtype=object)):
                                        free |= {n_ for n_ in symnp._symbols(t_) if not (n_.startswith("sqrt!") or n_.startswith("abs!") or n_.startswith("max!") or n_.startswith("min!"))}
                                    if free:
                                        continue
                                cobs[k] = symnp.model_array(model, v) if symnp._has_sym(v) else v
                        except Exception:
                            pass
                    for label, g in (out or {}).items():
                        g, hyps, gopts = split_goal(g)
                        v, _ = eng.prove(g, extra=hyps, pc_upto=gopts.get("pc_upto"))
                        if v != "unsat":
                            info["mismatch"].append(dict(kind="const-goal", label=label, verdict=v, values=_jsonable(values)))
        except Inconclusive as e:
            info["mismatch"].append(dict(kind="const-inconclusive", why=str(e)))
            break
        if (fexc is None) != (cexc is None) or (fexc is not None and _exc_name(fexc) != type(cexc).__name__):
            info["mismatch"].append(dict(kind="exception-differs", real=("None" if fexc is None else f"{_exc_name(fexc)}({str(fexc)[:160]!r})"), sym=repr(cexc)[:200], values=_jsonable(values)))
            continue
        for k, v in cobs.items():
            if k in fm.observed:
                try:
                    a = np.asarray(v, dtype=float); b = np.asarray(fm.observed[k], dtype=float)
                except Exception:
                    continue
                info["observed_compared"] += 1
                if a.shape != b.shape or not np.allclose(a, b, rtol=1e-7, atol=1e-9):
                    info["mismatch"].append(dict(kind="observed", name=k, sym=_jsonable(a), real=_jsonable(b), values=_jsonable(values)))
    return info
