"""symnp -- symbolic execution of real numpy code through dtype=object arrays.

Real numpy performs every shape / broadcast / index operation on object arrays whose elements are
symbolic reals (`S`, wrapping a z3 ArithRef) or symbolic booleans (`SB`).  A branch on a symbolic
boolean forks the path (depth-first re-execution with a decision prefix).  Nothing is re-modelled:
the functions under test are the function objects imported from /repo's working tree.

All concrete numbers that meet a symbolic value are lifted to *exact rationals* (a Python float is
a dyadic rational), so a symbolic run is exact real arithmetic.
"""
import fractions
import os
import itertools
import math
import time
from numbers import Number

import numpy as np
import z3


import threading


def guarded_check(solver, *assumptions, limit_s=60.0):
    """solver.check under z3's own timeout (set by the caller).  A watchdog thread calling ctx.interrupt() was tried and removed: with this z3 build it
    corrupts memory when algebraic numbers are involved.  Queries that overrun are bounded by the per-case wall-clock limit of the driver instead."""
    try:
        return solver.check(*assumptions)
    except z3.Z3Exception:
        return z3.unknown


class Abort(BaseException):
    """path abandoned (infeasible)"""


class Inconclusive(BaseException):
    """engine limit reached / unsupported operation: the check fails closed (exit 2)"""


class Engine:
    cur = None

    def __init__(self, timeout_ms=30000, max_paths=20000):
        self.timeout_ms = timeout_ms
        self.max_paths = max_paths
        self.stats = dict(paths=0, forks=0, feas_queries=0, solver_s=0.0, queries=0, aborted=0)
        self.som = os.environ.get("VF_SOM", "1") == "1"
        self.som_blowup = int(os.environ.get("VF_SOM_BLOWUP", "100000"))
        self.abstract_first = os.environ.get("VF_ABSTRACT", "1") == "1"
        self.relevance = os.environ.get("VF_RELEVANCE", "1") == "1"
        self.opaque_ext = os.environ.get("VF_OPAQUE_EXT", "1") == "1"  # abs/max/min as shared defined symbols instead of If-terms
        self._som_cache = {}
        self.partial_ok = False
        self.algebraic_sqrt = False  # opt-in: square roots of constants as exact algebraic literals (fast constant folding, harder nlsat coefficients)
        self.branch_timeout_ms = int(os.environ.get("VF_BRANCH_TIMEOUT_MS", "3000"))
        self.perturb = None  # None or z3 Real delta: comparisons decided with margin (C06-tie mode)

    # ---- per path state
    def _reset(self, prefix):
        self.prefix = list(prefix)
        self.pos = 0
        self.pc = []  # z3 bools: path condition + assumptions + definitional constraints
        self.def_of = {}  # fresh symbol name -> its defining formula (for relevance closure)
        self.defs = []  # definitions of total functions (abs, max, min) by fresh symbols: always satisfiable, always included
        self.fresh = itertools.count()
        self.solver = z3.Solver()
        self.solver.set("timeout", self.timeout_ms)
        self.notes = {}

    def fresh_real(self, hint="t"):
        return z3.Real(f"{hint}!{next(self.fresh)}")

    def fresh_bool(self, hint="p"):
        return z3.Bool(f"{hint}!{next(self.fresh)}")

    def fresh_int(self, hint="k"):
        return z3.Int(f"{hint}!{next(self.fresh)}")

    def assume(self, b):
        b = b.t if isinstance(b, SB) else b
        if isinstance(b, (bool, np.bool_)):
            if not b:
                raise Abort()
            return
        for c in _conjuncts(b):
            self.pc.append(c)
            self.solver.add(c)

    def _som(self, f):
        k = f.get_id()
        c = self._som_cache.get(k)
        if c is None:
            c = (f, z3.simplify(f, som=True, som_blowup=self.som_blowup, expand_power=True))  # keep f alive: ids are reused after gc
            if len(self._som_cache) > 50000:
                self._som_cache.clear()
            self._som_cache[k] = c
        return c[1]

    def canon(self, t):
        return z3.simplify(t, som=True, som_blowup=self.som_blowup, expand_power=True)

    def define(self, b, solver_too=True):
        self.defs.append(b)
        if solver_too:
            self.solver.add(b)

    def def_abs(self, t):
        """|t| as a shared opaque symbol y with y >= 0, (y == t or y == -t); same canonical polynomial (up to sign) -> same symbol"""
        c = self.canon(t)
        if z3.is_rational_value(c) or z3.is_algebraic_value(c):
            return c if z3.is_true(z3.simplify(c >= 0)) else z3.simplify(-c)
        k1, k2 = poly_key(c), poly_key(self.canon(-t))
        key = "abs:" + min(k1, k2)
        if key not in self.notes:
            y = self.fresh_real("abs")
            self.define(z3.And(y >= 0, z3.Or(y == c, y == -c)))
            self.def_of[y.decl().name()] = self.defs[-1]
            self.notes[key] = y
        return self.notes[key]

    def def_ext(self, ts, which):
        """max / min of terms as a shared opaque symbol (keyed by the set of canonical arguments)"""
        cs = []
        seen = set()
        for t in ts:
            c = self.canon(t)
            if poly_key(c) not in seen:
                seen.add(poly_key(c)); cs.append(c)
        if all(z3.is_rational_value(c) or z3.is_algebraic_value(c) for c in cs):
            best = cs[0]
            for c in cs[1:]:
                better = z3.simplify(c >= best) if which == "max" else z3.simplify(c <= best)
                if z3.is_true(better):
                    best = c
            return best
        if len(cs) == 1:
            return cs[0]
        key = which + ":" + "|".join(sorted(seen))
        if key not in self.notes:
            y = self.fresh_real(which)
            if which == "max":
                self.define(z3.And([y >= c for c in cs] + [z3.Or([y == c for c in cs])]))
            else:
                self.define(z3.And([y <= c for c in cs] + [z3.Or([y == c for c in cs])]))
            self.def_of[y.decl().name()] = self.defs[-1]
            self.notes[key] = y
        return self.notes[key]

    def _check(self, *extra):
        t0 = time.time()
        r = guarded_check(self.solver, *extra, limit_s=self.timeout_ms / 1000.0 * 1.25 + 5)
        self.stats["solver_s"] += time.time() - t0
        self.stats["feas_queries"] += 1
        return r

    def branch(self, cond):
        """decide a symbolic boolean; fork if both sides are feasible"""
        c = z3.simplify(cond)
        if z3.is_true(c):
            return True
        if z3.is_false(c):
            return False
        if self.pos < len(self.prefix):
            v = self.prefix[self.pos]
        else:
            can_t = self._side_feasible(c)  # unknown counts as feasible (over-approximation)
            can_f = self._side_feasible(z3.Not(c))
            if can_t and can_f:
                self.work.append(self.prefix + [False])
                self.stats["forks"] += 1
                v = True
            elif can_t:
                v = True
            elif can_f:
                v = False
            else:
                raise Abort()
            self.prefix.append(v)
        self.pos += 1
        self.assume(c if v else z3.Not(c))
        return v

    def _side_feasible(self, cond):
        """may the path continue with `cond`?  Only a proof of infeasibility prunes: first the linear relaxation (fast, sound for unsat), then the
        incremental solver under a short time limit; anything else counts as feasible."""
        t0 = time.time()
        self.stats["feas_queries"] += 1
        try:
            ab = abstract_nonlinear([self._som(f) for f in (self.pc + self.defs + [cond])])
            sa = z3.Solver()
            sa.set("timeout", 5000)
            sa.add(*ab)
            if guarded_check(sa, limit_s=10) == z3.unsat:
                return False
        except z3.Z3Exception:
            pass
        finally:
            self.stats["solver_s"] += time.time() - t0
        self.solver.set("timeout", self.branch_timeout_ms)
        try:
            t0 = time.time()
            r = guarded_check(self.solver, cond, limit_s=self.branch_timeout_ms / 1000.0 * 2 + 2)
            self.stats["solver_s"] += time.time() - t0
            return r != z3.unsat
        finally:
            self.solver.set("timeout", self.timeout_ms)

    def explore(self, fn):
        """run fn() on every feasible path; yields ('ok', result) / ('exc', exception)"""
        self.work = [[]]
        prev = Engine.cur
        try:
            while self.work:
                prefix = self.work.pop()
                self._reset(prefix)
                self.stats["paths"] += 1
                if self.stats["paths"] > self.max_paths:
                    if self.partial_ok:
                        # stated bound: only the first max_paths paths (depth-first order) are explored; recorded as truncated
                        self.stats["paths"] -= 1
                        self.stats["truncated"] = len(self.work) + 1
                        return
                    raise Inconclusive(f"path budget {self.max_paths} exceeded")
                Engine.cur = self
                try:
                    out = fn()
                    kind = "ok"
                except Abort:
                    self.stats["aborted"] += 1
                    continue
                except Inconclusive:
                    raise
                except Exception as e:  # raised by the code under test on this path
                    out, kind = e, "exc"
                finally:
                    Engine.cur = prev
                Engine.cur = self  # the consumer may still build terms / prove on this path
                yield kind, out
                Engine.cur = prev
        finally:
            Engine.cur = prev

    def feasible(self, timeout_ms=None):
        """is the current path condition satisfiable? ('sat'/'unsat'/'unknown')"""
        if timeout_ms:
            self.solver.set("timeout", timeout_ms)
        try:
            return str(self._check())
        finally:
            self.solver.set("timeout", self.timeout_ms)

    def prove(self, goal, extra=(), timeout_ms=None, pc_upto=None):
        """is pc & extra & not goal unsat?  returns (verdict, model)"""
        g = goal.t if isinstance(goal, SB) else goal
        if isinstance(g, (bool, np.bool_)):
            g = z3.BoolVal(bool(g))
        if not _symbols(g):
            # closed goal over constants (const-mode runs, algebraic literals): the simplifier decides it
            gs = z3.simplify(g)
            if z3.is_true(gs):
                self.stats["queries"] += 1
                return "unsat", None
        return self.solve(list(extra) + [z3.Not(g)], timeout_ms=timeout_ms, pc_upto=pc_upto)

    def solve(self, formulas, timeout_ms=None, with_pc=True, pc_upto=None):
        """satisfiability of pc & formulas. returns (verdict, model)"""
        s = z3.Solver()
        s.set("timeout", timeout_ms or self.timeout_ms)
        fs_ = (list(self.pc if pc_upto is None else self.pc[:pc_upto]) + list(self.defs)) if with_pc else []
        fs_ += list(formulas)
        if self.som:
            # sum-of-monomials normal form: polynomially equal sub-terms of code and specification become identical terms
            fs_ = [self._som(f) for f in fs_]
        t0 = time.time()
        quantified = any(_has_quantifier(f) for f in formulas)
        if self.abstract_first and fs_ and not quantified:
            # sound shortcut: replace every non-linear sub-term (product of unknowns, division by an unknown) by an opaque fresh
            # real; identical terms get the same symbol.  unsat of this linear relaxation implies unsat of the real query.
            try:
                ab = abstract_nonlinear(fs_)
                sa = z3.Solver()
                sa.set("timeout", min(timeout_ms or self.timeout_ms, 20000))
                sa.add(*ab)
                if guarded_check(sa, limit_s=30) == z3.unsat:
                    self.stats["solver_s"] += time.time() - t0
                    self.stats["queries"] += 1
                    self.stats["abstract_unsat"] = self.stats.get("abstract_unsat", 0) + 1
                    return "unsat", None
            except z3.Z3Exception:
                pass
        if with_pc and self.relevance and len(fs_) > len(formulas) + 3:
            # stage 1: only those path-condition atoms whose symbols all occur in the goal formulas (dropping hypotheses is sound for unsat)
            gv = set()
            for f in formulas:
                gv |= _symbols(f)
            grew = True
            while grew:  # close the symbol set under the definitions of the fresh symbols it contains
                grew = False
                for name, f in self.def_of.items():
                    if name in gv:
                        sv = _symbols(f)
                        if not sv <= gv:
                            gv |= sv
                            grew = True
            base_ = fs_[:len(fs_) - len(formulas)]
            pool = [(f, _symbols(f)) for f in base_]
            keep = []
            # definitional atoms pull in their own symbols (one round), then subset filter
            for f, sv in pool:
                if sv and sv <= gv:
                    keep.append(f)
            if len(keep) < len(base_):
                s1 = z3.Solver()
                s1.set("timeout", min(timeout_ms or self.timeout_ms, 10000))
                s1.add(*keep)
                s1.add(*fs_[len(base_):])
                if guarded_check(s1, limit_s=20) == z3.unsat:
                    self.stats["solver_s"] += time.time() - t0
                    self.stats["queries"] += 1
                    self.stats["relevance_unsat"] = self.stats.get("relevance_unsat", 0) + 1
                    return "unsat", None
        s.add(*fs_)
        r = guarded_check(s, limit_s=(timeout_ms or self.timeout_ms) / 1000.0 * 1.25 + 5)
        self.stats["solver_s"] += time.time() - t0
        self.stats["queries"] += 1
        return str(r), (s.model() if r == z3.sat else None)


def _has_quantifier(t):
    stack = [t]
    seen = set()
    while stack:
        u = stack.pop()
        if u.get_id() in seen:
            continue
        seen.add(u.get_id())
        if z3.is_quantifier(u):
            return True
        if z3.is_app(u):
            stack.extend(u.children())
    return False


def poly_key(t):
    """order-insensitive key of a term (arguments of + and * sorted recursively)"""
    if z3.is_app(t) and t.num_args() > 0:
        kind = t.decl().kind()
        ks = [poly_key(c) for c in t.children()]
        if kind in (z3.Z3_OP_ADD, z3.Z3_OP_MUL):
            ks.sort()
        return "(" + t.decl().name() + " " + " ".join(ks) + ")"
    return t.sexpr()


def _conjuncts(b):
    if z3.is_and(b):
        out = []
        for c in b.children():
            out.extend(_conjuncts(c))
        return out
    return [b]


_SYM_CACHE = {}


def _symbols(t):
    """names of the uninterpreted constants occurring in a term"""
    k = t.get_id()
    if k in _SYM_CACHE:
        return _SYM_CACHE[k][1]
    out = set()
    seen = set()
    stack = [t]
    while stack:
        u = stack.pop()
        i = u.get_id()
        if i in seen:
            continue
        seen.add(i)
        if z3.is_quantifier(u):
            stack.append(u.body())
            continue
        if z3.is_app(u):
            if u.num_args() == 0:
                if u.decl().kind() == z3.Z3_OP_UNINTERPRETED:
                    out.add(u.decl().name())
            else:
                stack.extend(u.children())
    if len(_SYM_CACHE) > 200000:
        _SYM_CACHE.clear()
    _SYM_CACHE[k] = (t, frozenset(out))  # keep t alive: z3 reuses ids of collected terms
    return _SYM_CACHE[k][1]


_ABS_CACHE = {}   # term id -> (term kept alive, abstracted term)
_ABS_NAMES = {}   # term id -> (term kept alive, opaque symbol)


def abstract_nonlinear(formulas):
    """replace non-linear arithmetic sub-terms by fresh reals (same term -> same symbol; the table is process-wide so that repeated queries are cheap)"""
    if len(_ABS_CACHE) > 400000:
        _ABS_CACHE.clear(); _ABS_NAMES.clear()
    cache = _ABS_CACHE
    names = _ABS_NAMES

    def opaque(t):
        k = t.get_id()
        if k not in names:
            names[k] = (t, z3.Real(f"nl!{len(names)}"))
        return names[k][1]

    def is_num(t):
        return z3.is_rational_value(t) or z3.is_int_value(t) or z3.is_algebraic_value(t)

    def walk(t):
        k = t.get_id()
        if k in cache:
            return cache[k][1]
        r = t
        if z3.is_app(t) and t.num_args() > 0:
            kind = t.decl().kind()
            ch = t.children()
            if kind == z3.Z3_OP_MUL:
                non = [c for c in ch if not is_num(c)]
                if len(non) >= 2:
                    r = opaque(t)
                else:
                    r = t.decl()(*[walk(c) for c in ch])
            elif kind in (z3.Z3_OP_DIV, z3.Z3_OP_IDIV, z3.Z3_OP_MOD, z3.Z3_OP_REM):
                if is_num(ch[1]):
                    r = t.decl()(walk(ch[0]), ch[1])
                else:
                    r = opaque(t)
            elif kind == z3.Z3_OP_POWER:
                r = opaque(t)
            elif z3.is_quantifier(t):
                r = t
            else:
                r = t.decl()(*[walk(c) for c in ch])
        elif z3.is_quantifier(t):
            r = t
        cache[k] = (t, r)
        return r
    return [walk(f) for f in formulas]


def E():
    e = Engine.cur
    if e is None:
        raise RuntimeError("symbolic value used outside an engine run")
    return e


def rat(v):
    f = fractions.Fraction(v)
    return z3.RealVal(f"{f.numerator}/{f.denominator}")


def lift(v):
    """python/numpy number or S -> z3 real term (exact)"""
    if isinstance(v, S):
        return v.t
    if isinstance(v, (bool, np.bool_, SB)):
        raise TypeError("bool in arithmetic")
    if isinstance(v, (int, np.integer)):
        return z3.RealVal(int(v))
    if isinstance(v, (float, np.floating)):
        if not math.isfinite(v):
            raise TypeError("non-finite constant in symbolic arithmetic")
        return rat(float(v))
    if isinstance(v, fractions.Fraction):
        return rat(v)
    if isinstance(v, np.ndarray) and v.ndim == 0:
        return lift(v.item())
    raise TypeError(type(v))


def _simp(t):
    return z3.simplify(t, som=True) if t.num_args() and t.decl().kind() == z3.Z3_OP_MUL else z3.simplify(t)


class S:
    """symbolic real"""
    __slots__ = ("t",)

    def __init__(self, t):
        self.t = t

    def _b(self, o, f):
        if isinstance(o, np.ndarray) and o.ndim > 0:
            return NotImplemented
        if isinstance(o, (float, np.floating)) and math.isnan(o):
            return float("nan")  # nan propagates (e.g. "no positive multiple" markers)
        if isinstance(o, (float, np.floating)) and not math.isfinite(o) and z3.is_rational_value(self.t):
            return f(float(self), float(o))  # e.g. np.ones(n) * np.inf for default upper bounds
        try:
            return S(z3.simplify(f(self.t, lift(o))))
        except TypeError:
            return NotImplemented

    def __add__(s, o): return s._b(o, lambda a, b: a + b)
    def __radd__(s, o): return s._b(o, lambda a, b: b + a)
    def __sub__(s, o): return s._b(o, lambda a, b: a - b)
    def __rsub__(s, o): return s._b(o, lambda a, b: b - a)
    def __mul__(s, o): return s._b(o, lambda a, b: a * b)
    def __rmul__(s, o): return s._b(o, lambda a, b: b * a)
    def __truediv__(s, o):
        z = _zero_division(s, o)
        return z if z is not None else s._b(o, lambda a, b: a / b)

    def __rtruediv__(s, o):
        z = _zero_division(o, s)
        return z if z is not None else s._b(o, lambda a, b: b / a)
    def __neg__(s): return S(z3.simplify(-s.t))
    def __pos__(s): return s
    def __abs__(s):
        if Engine.cur is not None and Engine.cur.opaque_ext:
            return S(Engine.cur.def_abs(s.t))
        return S(z3.If(s.t >= 0, s.t, -s.t))

    def __pow__(s, o):
        if isinstance(o, (int, np.integer)) or (isinstance(o, (float, np.floating)) and float(o).is_integer()):
            o = int(o)
            if o >= 0:
                r = S(z3.RealVal(1))
                for _ in range(o):
                    r = r * s
                return r
            return 1 / (s ** (-o))
        if o == 0.5:
            return s.sqrt()
        return NotImplemented

    def sqrt(s):
        """y with y >= 0 and y*y == s (the path becomes infeasible if s < 0, as sqrt would give nan)"""
        e = E()
        c = e.canon(s.t)
        if z3.is_rational_value(c) and c.numerator_as_long() >= 0:
            f = fractions.Fraction(c.numerator_as_long(), c.denominator_as_long())
            n_, d_ = math.isqrt(f.numerator), math.isqrt(f.denominator)
            if n_ * n_ == f.numerator and d_ * d_ == f.denominator:
                return S(rat(fractions.Fraction(n_, d_)))
        if e.algebraic_sqrt and (z3.is_rational_value(c) or z3.is_algebraic_value(c)):
            nonneg = z3.simplify(c >= 0)
            if z3.is_true(nonneg):
                r = z3.simplify(z3.Sqrt(c))
                if z3.is_algebraic_value(r) or z3.is_rational_value(r):
                    return S(r)  # exact algebraic number literal: arithmetic and comparisons on it are decided by z3's simplifier
        k = "sqrt:" + poly_key(c)
        if k in e.notes:
            return e.notes[k]
        y = e.fresh_real("sqrt")
        # definitional (always included, also in queries against a truncated path condition); unsatisfiable iff the argument is negative
        e.define(z3.And(y >= 0, y * y == c))
        e.def_of[y.decl().name()] = z3.And(y >= 0, y * y == c, z3.Implies(c <= 0, y == 0))
        e.define(z3.Implies(c <= 0, y == 0), solver_too=False)  # implied by the definition; it keeps the linear relaxation useful
        r = S(y)
        e.notes[k] = r
        return r

    def _c(self, o, op):
        try:
            b = lift(o)
        except TypeError:
            return NotImplemented
        a = self.t
        d = E().perturb if Engine.cur is not None else None
        if d is not None and op in ("<=", ">="):
            # perturbed-comparison mode (C06-tie): a computed quantity may be off by up to delta
            return SB(a <= b - d) if op == "<=" else SB(a >= b + d)
        return SB({"<": a < b, "<=": a <= b, ">": a > b, ">=": a >= b, "==": a == b, "!=": a != b}[op])

    def __lt__(s, o): return s._c(o, "<")
    def __le__(s, o): return s._c(o, "<=")
    def __gt__(s, o): return s._c(o, ">")
    def __ge__(s, o): return s._c(o, ">=")
    def __eq__(s, o): return s._c(o, "==")
    def __ne__(s, o): return s._c(o, "!=")
    __hash__ = None

    def __float__(s):
        v = z3.simplify(s.t)
        if z3.is_rational_value(v):
            return float(v.numerator_as_long()) / float(v.denominator_as_long())
        if z3.is_algebraic_value(v):
            a = v.approx(30)
            return float(a.numerator_as_long()) / float(a.denominator_as_long())
        raise Inconclusive("symbolic real reached a float-only (compiled) boundary: " + str(s.t)[:80])

    def __bool__(s):
        return bool(s != 0)

    def __int__(s):
        """C-style cast (what numpy does when a real lands in an integer-typed array): truncation towards zero, decided for constants only"""
        v = z3.simplify(s.t)
        if z3.is_rational_value(v):
            return int(fractions.Fraction(v.numerator_as_long(), v.denominator_as_long()))
        raise Inconclusive("symbolic real stored into an integer-typed array (value would be truncated): " + str(s.t)[:80])

    def conjugate(s):
        return s

    # numpy's object-dtype loops of the transcendental ufuncs call a method of the same name on each element
    def cos(s): return _hook(np.cos)(s)
    def sin(s): return _hook(np.sin)(s)
    def arccos(s): return _hook(np.arccos)(s)
    def log(s): return _hook(np.log)(s)
    def exp(s): return _hook(np.exp)(s)

    def __getitem__(s, item):
        # numpy scalars support x[None] / x[()] / x[...]
        a = np.empty((), dtype=object)
        a[()] = s
        r = a[item]
        return r.view(SymArray) if isinstance(r, np.ndarray) else r

    shape = ()
    ndim = 0
    size = 1

    @property
    def real(s): return s

    def __repr__(s):
        return f"S({s.t})"


def _is_const_zero(v):
    if isinstance(v, S):
        t = z3.simplify(v.t)
        return z3.is_rational_value(t) and t.numerator_as_long() == 0
    if isinstance(v, (int, float, np.integer, np.floating)):
        return v == 0
    return False


def _zero_division(num, den):
    """IEEE semantics of a division by a concrete zero (numpy gives +-inf / nan and goes on): decided by the sign of the numerator (forking if symbolic)"""
    if isinstance(den, np.ndarray) or isinstance(num, np.ndarray) or not _is_const_zero(den):
        return None
    if isinstance(num, S):
        t = z3.simplify(num.t)
        if z3.is_rational_value(t):
            n_ = t.numerator_as_long()
            return float("inf") if n_ > 0 else (float("-inf") if n_ < 0 else float("nan"))
        if bool(num > 0):
            return float("inf")
        if bool(num < 0):
            return float("-inf")
        return float("nan")
    if isinstance(num, (int, float, np.integer, np.floating)):
        return float("inf") if num > 0 else (float("-inf") if num < 0 else float("nan"))
    return None


Number.register(S)


class SB:
    """symbolic bool"""
    __slots__ = ("t",)

    def __init__(self, t):
        self.t = t

    def __bool__(s):
        return E().branch(s.t)

    @staticmethod
    def _l(o):
        if isinstance(o, SB):
            return o.t
        if isinstance(o, (bool, np.bool_)):
            return z3.BoolVal(bool(o))
        raise TypeError(type(o))

    def __and__(s, o): return SB(z3.And(s.t, SB._l(o)))
    __rand__ = __and__
    def __or__(s, o): return SB(z3.Or(s.t, SB._l(o)))
    __ror__ = __or__
    def __invert__(s): return SB(z3.Not(s.t))
    def __eq__(s, o): return SB(s.t == SB._l(o))
    def __ne__(s, o): return SB(s.t != SB._l(o))
    __hash__ = None
    def __repr__(s): return f"SB({s.t})"


# ----------------------------------------------------------------------------- arrays

_CMP = {np.less, np.less_equal, np.greater, np.greater_equal, np.equal, np.not_equal}


def _is_symarr(x):
    return isinstance(x, np.ndarray) and x.dtype == object


def wrap(r):
    if isinstance(r, np.ndarray) and r.dtype == object and not isinstance(r, SymArray):
        return r.view(SymArray)
    if isinstance(r, tuple):
        return tuple(wrap(i) for i in r)
    if isinstance(r, list):
        return [wrap(i) for i in r]
    return r


def strip(x):
    if isinstance(x, SymArray):
        return x.view(np.ndarray)
    if isinstance(x, (list, tuple)):
        return type(x)(strip(i) for i in x)
    if isinstance(x, dict):
        return {k: strip(v) for k, v in x.items()}
    return x


def _el(f, nin):
    return np.frompyfunc(f, nin, 1)


def _isinf(v):
    return isinstance(v, (float, np.floating)) and math.isinf(v)


def smin(a, b):
    if _isinf(a) or _isinf(b):
        if _isinf(a) and _isinf(b):
            return min(a, b)
        inf_, other = (a, b) if _isinf(a) else (b, a)
        return other if inf_ > 0 else inf_
    if isinstance(a, S) or isinstance(b, S):
        x, y = lift(a), lift(b)
        if Engine.cur is not None and Engine.cur.opaque_ext:
            return S(Engine.cur.def_ext([x, y], "min"))
        return S(z3.simplify(z3.If(x <= y, x, y)))
    return min(a, b)


def smax(a, b):
    if _isinf(a) or _isinf(b):
        if _isinf(a) and _isinf(b):
            return max(a, b)
        inf_, other = (a, b) if _isinf(a) else (b, a)
        return inf_ if inf_ > 0 else other
    if isinstance(a, S) or isinstance(b, S):
        x, y = lift(a), lift(b)
        if Engine.cur is not None and Engine.cur.opaque_ext:
            return S(Engine.cur.def_ext([x, y], "max"))
        return S(z3.simplify(z3.If(x >= y, x, y)))
    return max(a, b)


def ssqrt(a):
    if isinstance(a, S):
        return a.sqrt()
    return S(lift(a)).sqrt() if Engine.cur is not None and not _perfect_square(a) else math.sqrt(a)


def _perfect_square(a):
    try:
        f = fractions.Fraction(float(a))
    except Exception:
        return False
    if f < 0:
        return False
    n, d = math.isqrt(f.numerator), math.isqrt(f.denominator)
    return n * n == f.numerator and d * d == f.denominator


def sabs(a):
    return abs(a)


def _and(a, b):
    if isinstance(a, SB) or isinstance(b, SB):
        return SB(z3.And(_tob(a), _tob(b)))
    return bool(a) and bool(b)


def _or(a, b):
    if isinstance(a, SB) or isinstance(b, SB):
        return SB(z3.Or(_tob(a), _tob(b)))
    return bool(a) or bool(b)


def _not(a):
    if isinstance(a, SB):
        return ~a
    return not a


def _tob(v):
    if isinstance(v, SB):
        return v.t
    if isinstance(v, S):
        return v.t != 0
    return z3.BoolVal(bool(v))


def _reduce(f, arr, axis, keepdims=False):
    a = np.asarray(arr).view(np.ndarray)
    if axis is None:
        flat = a.ravel()
        r = flat[0]
        for v in flat[1:]:
            r = f(r, v)
        if keepdims:
            out = np.empty((1,) * a.ndim, dtype=object)
            out[...] = r
            return wrap(out)
        return r
    if isinstance(axis, tuple):
        if len(axis) != 1:
            raise Inconclusive("multi-axis min/max")
        axis = axis[0]
    am = np.moveaxis(a, axis, -1)
    r = np.empty(am.shape[:-1], dtype=object)
    for idx in np.ndindex(*r.shape):
        r[idx] = _reduce(f, am[idx], None)
    if keepdims:
        r = np.expand_dims(r, axis)
    return wrap(r)


def _logic_reduce(conn, arr, axis=None, keepdims=False):
    a = np.asarray(arr).view(np.ndarray)
    if a.dtype != object:
        return (np.all if conn is z3.And else np.any)(a, axis=axis, keepdims=keepdims)
    mk = lambda vs: _mk_logic(conn, vs)
    if axis is None:
        r = mk(list(a.ravel()))
        if keepdims:
            out = np.empty((1,) * a.ndim, dtype=object); out[...] = r
            return wrap(out)
        return r
    if isinstance(axis, tuple):
        if len(axis) != 1:
            raise Inconclusive("multi-axis all/any")
        axis = axis[0]
    am = np.moveaxis(a, axis, -1)
    r = np.empty(am.shape[:-1], dtype=object)
    for idx in np.ndindex(*r.shape):
        r[idx] = mk(list(am[idx]))
    if keepdims:
        r = np.expand_dims(r, axis)
    return wrap(r)


def _mk_logic(conn, vs):
    if not any(isinstance(v, (S, SB)) for v in vs):
        return all(bool(v) for v in vs) if conn is z3.And else any(bool(v) for v in vs)
    if not vs:
        return conn is z3.And
    return SB(z3.simplify(conn([_tob(v) for v in vs])))


def sall(arr, axis=None, keepdims=False, **kw):
    return _logic_reduce(z3.And, arr, axis, keepdims)


def sany(arr, axis=None, keepdims=False, **kw):
    return _logic_reduce(z3.Or, arr, axis, keepdims)


def concretize_mask(m):
    """boolean mask with symbolic entries -> concrete mask by forking on each entry"""
    m = np.asarray(m).view(np.ndarray)
    out = np.zeros(m.shape, dtype=bool)
    for idx in np.ndindex(*m.shape):
        out[idx] = bool(m[idx])
    return out


def _is_boolish_obj(a):
    if not (isinstance(a, np.ndarray) and a.dtype == object and a.size):
        return False
    return all(isinstance(v, (SB, bool, np.bool_)) for v in a.ravel())


class SymArray(np.ndarray):
    """object ndarray whose ufuncs/functions never force symbolic values to concrete"""
    __array_priority__ = 100

    def __array_ufunc__(self, ufunc, method, *inputs, out=None, **kw):
        ins = [i.view(np.ndarray) if isinstance(i, np.ndarray) else i for i in inputs]
        ins = [np.asarray(i, dtype=object) if isinstance(i, (S, SB)) else i for i in ins]
        if out is not None:
            kw["out"] = tuple(o.view(np.ndarray) if isinstance(o, SymArray) else o for o in out)
        if method == "__call__":
            if ufunc in _CMP:
                kw.setdefault("dtype", object)
                r = ufunc(*ins, **kw)
            elif ufunc is np.isfinite:
                r = _el(lambda v: True if isinstance(v, (S, SB)) else bool(np.isfinite(v)), 1)(*ins).astype(bool)
            elif ufunc in (np.isnan, np.isinf):
                f = ufunc
                r = _el(lambda v: False if isinstance(v, (S, SB)) else bool(f(v)), 1)(*ins).astype(bool)
            elif ufunc is np.minimum:
                r = _el(smin, 2)(*ins)
            elif ufunc is np.maximum:
                r = _el(smax, 2)(*ins)
            elif ufunc is np.sqrt:
                r = _el(ssqrt, 1)(*ins)
            elif ufunc in (np.absolute, np.fabs):
                r = _el(sabs, 1)(*ins)
            elif ufunc in (np.logical_and, np.bitwise_and):
                r = _el(_and, 2)(*ins)
            elif ufunc in (np.logical_or, np.bitwise_or):
                r = _el(_or, 2)(*ins)
            elif ufunc in (np.logical_not, np.invert):
                r = _el(_not, 1)(*ins)
            elif ufunc is np.square:
                r = _el(lambda v: v * v, 1)(*ins)
            elif ufunc is np.power:
                r = _el(lambda a, b: a ** b, 2)(*ins)
            elif ufunc is np.matmul:
                r = _matmul(ins[0], ins[1])
            elif ufunc in (np.cos, np.sin, np.arccos, np.log, np.exp, np.log10, np.floor, np.ceil, np.sign):
                h = _UFUNC_HOOKS.get(ufunc)
                if h is None:
                    raise Inconclusive(f"transcendental ufunc {ufunc.__name__} on symbolic data without a model")
                r = _el(h, 1)(*ins)
            else:
                r = ufunc(*ins, **kw)
            if isinstance(r, np.ndarray) and r.dtype == object and r.ndim == 0 and "out" not in kw:
                r = r.item()
        else:
            if ufunc is np.logical_and and method == "reduce":
                return sall(ins[0], axis=kw.get("axis"), keepdims=kw.get("keepdims", False))
            if ufunc is np.logical_or and method == "reduce":
                return sany(ins[0], axis=kw.get("axis"), keepdims=kw.get("keepdims", False))
            if ufunc in (np.minimum, np.maximum) and method == "reduce":
                f = smin if ufunc is np.minimum else smax
                return _reduce(f, ins[0], kw.get("axis"), kw.get("keepdims", False))
            r = getattr(ufunc, method)(*ins, **kw)
        return wrap(r)

    def __array_function__(self, func, types, args, kwargs):
        if func in _FUNCS:
            return _FUNCS[func](*args, **kwargs)
        return wrap(func(*strip(args), **strip(kwargs)))

    # methods numpy implements in C for object arrays using python truthiness
    def all(self, axis=None, out=None, keepdims=False, **kw): return sall(self, axis=axis, keepdims=keepdims)
    def any(self, axis=None, out=None, keepdims=False, **kw): return sany(self, axis=axis, keepdims=keepdims)
    def min(self, axis=None, out=None, keepdims=False, **kw): return _reduce(smin, self, axis, keepdims)
    def max(self, axis=None, out=None, keepdims=False, **kw): return _reduce(smax, self, axis, keepdims)

    def mean(self, axis=None, dtype=None, out=None, keepdims=False, **kw):
        a = self.view(np.ndarray)
        n = a.size if axis is None else a.shape[axis]
        return wrap(np.sum(a, axis=axis, keepdims=keepdims)) / n

    def astype(self, dtype, *a, **k):
        if np.dtype(dtype).kind == "f":
            return self.copy()
        if np.dtype(dtype).kind == "O":
            return self.copy()
        return np.ndarray.astype(self.view(np.ndarray), dtype, *a, **k)

    def __getitem__(self, item):
        item = _conc_index(item)
        r = np.ndarray.__getitem__(self, item)
        return r

    def __setitem__(self, item, value):
        item = _conc_index(item)
        np.ndarray.__setitem__(self, item, value)

    def __bool__(self):
        if self.size == 1:
            return bool(self.reshape(-1)[0])
        raise ValueError("truth value of a symbolic array with more than one element is ambiguous")

    def __invert__(self):
        return wrap(_el(_not, 1)(self.view(np.ndarray)))

    def __matmul__(self, o):
        if isinstance(o, np.ndarray) or isinstance(o, (list, tuple)):
            return wrap(_matmul(self.view(np.ndarray), np.asarray(o)))
        return NotImplemented

    def __rmatmul__(self, o):
        if isinstance(o, np.ndarray) or isinstance(o, (list, tuple)):
            return wrap(_matmul(np.asarray(o), self.view(np.ndarray)))
        return NotImplemented


def _conc_index(item):
    if isinstance(item, np.ndarray) and item.dtype == object and _is_boolish_obj(item):
        return concretize_mask(item)
    if isinstance(item, tuple):
        return tuple(concretize_mask(i) if (_is_symarr(i) and _is_boolish_obj(i)) else i for i in item)
    return item


def _matmul(a, b):
    """matmul for object arrays (numpy's object matmul works, but keep zero/one constants tidy)"""
    a = np.asarray(a); b = np.asarray(b)
    if a.dtype != object:
        a = a.astype(object)
    if b.dtype != object:
        b = b.astype(object)
    return np.matmul(a.view(np.ndarray), b.view(np.ndarray))


# ----------------------------------------------------------------------------- linear algebra (exact)

def det(M):
    M = np.asarray(M).view(np.ndarray)
    if M.ndim > 2:
        out = np.empty(M.shape[:-2], dtype=object)
        for idx in np.ndindex(*out.shape):
            out[idx] = det(M[idx])
        return wrap(out)
    n = M.shape[0]
    if n == 0:
        return 1
    if n == 1:
        return M[0, 0]
    if n == 2:
        return M[0, 0] * M[1, 1] - M[0, 1] * M[1, 0]
    tot = 0
    for j in range(n):
        if not isinstance(M[0, j], S) and M[0, j] == 0:
            continue
        minor = np.delete(np.delete(M, 0, axis=0), j, axis=1)
        tot = tot + ((-1) ** j) * M[0, j] * det(minor)
    return tot


def _nonzero_or_raise(d):
    if isinstance(d, S):
        if bool(d == 0):
            raise np.linalg.LinAlgError("Singular matrix")
    elif d == 0:
        raise np.linalg.LinAlgError("Singular matrix")


def _exactify(A):
    """float array -> object array of exact rational S constants (keeps S entries)"""
    A = np.asarray(A).view(np.ndarray)
    out = np.empty(A.shape, dtype=object)
    for idx in np.ndindex(*A.shape):
        v = A[idx]
        out[idx] = v if isinstance(v, S) else S(lift(v))
    return out


def linalg_solve(A, B):
    """exact solve by Cramer; singular -> LinAlgError (as numpy raises)"""
    A = _exactify(A)
    B = _exactify(B)
    d = det(A)
    _nonzero_or_raise(d)
    vec = B.ndim == 1
    Bm = B[:, None] if vec else B
    n = A.shape[0]
    X = np.empty(Bm.shape, dtype=object)
    for c in range(Bm.shape[1]):
        for i in range(n):
            Ai = A.copy()
            Ai[:, i] = Bm[:, c]
            X[i, c] = det(Ai) / d
    X = X[:, 0] if vec else X
    return X.view(SymArray)


def linalg_inv(A):
    A = _exactify(A)
    n = A.shape[0]
    return linalg_solve(A, _exactify(np.eye(n)))


def swhere(cond, a=None, b=None):
    if a is None and b is None:
        return np.nonzero(concretize_mask(cond))
    cond = np.asarray(cond).view(np.ndarray)
    a = np.asarray(a).view(np.ndarray); b = np.asarray(b).view(np.ndarray)

    def f(c, x, y):
        if isinstance(c, SB):
            if isinstance(x, (SB, bool, np.bool_)) and isinstance(y, (SB, bool, np.bool_)):
                return SB(z3.If(c.t, SB._l(x), SB._l(y)))
            if any(isinstance(v, (float, np.floating)) and not math.isfinite(v) for v in (x, y)):
                return x if bool(c) else y  # a nan / inf branch has no real term: decide the condition (forks when symbolic)
            return S(z3.simplify(z3.If(c.t, lift(x), lift(y))))
        return x if c else y
    return wrap(_el(f, 3)(cond, a, b))


def sisclose(a, b, rtol=1e-05, atol=1e-08, equal_nan=False):
    a = np.asarray(a).view(np.ndarray); b = np.asarray(b).view(np.ndarray)

    def f(x, y):
        if isinstance(x, S) or isinstance(y, S):
            return abs(S(z3.simplify(lift(x) - lift(y)))) <= atol + rtol * abs(S(lift(y)))
        return bool(np.isclose(x, y, rtol, atol))
    r = _el(f, 2)(a, b)
    if isinstance(r, np.ndarray) and r.ndim == 0:
        return r.item()
    return wrap(r)


def sallclose(a, b, rtol=1e-05, atol=1e-08, equal_nan=False):
    return sall(sisclose(a, b, rtol, atol))


def sarray_equal(a, b, **k):
    a = np.asarray(a); b = np.asarray(b)
    if a.shape != b.shape:
        return False
    if a.dtype != object and b.dtype != object:
        return bool(np.array_equal(a, b))
    return sall(wrap(a.astype(object)) == b)


def ssort(a, axis=-1, **k):
    """sorting network via min/max (no forking) along one axis"""
    a = np.asarray(a).view(np.ndarray).copy()
    am = np.moveaxis(a, axis, -1)
    n = am.shape[-1]
    for idx in np.ndindex(*am.shape[:-1]):
        v = list(am[idx])
        for i in range(n):
            for j in range(n - 1 - i):
                lo, hi = smin(v[j], v[j + 1]), smax(v[j], v[j + 1])
                v[j], v[j + 1] = lo, hi
        am[idx] = v
    return wrap(np.moveaxis(am, -1, axis))


def smean(a, axis=None, dtype=None, out=None, keepdims=False, **k):
    a = np.asarray(a).view(np.ndarray)
    n = a.size if axis is None else a.shape[axis]
    return wrap(np.sum(a, axis=axis, keepdims=keepdims)) / n


def sprod(a, axis=None, keepdims=False, **k):
    a = np.asarray(a).view(np.ndarray)
    return wrap(np.multiply.reduce(a, axis=axis, keepdims=keepdims)) if a.size else 1


def snanmin(a, axis=None, **k):
    # symbolic reals are never nan; nan is introduced only by explicit assignment of np.nan (handled by callers)
    a = np.asarray(a).view(np.ndarray)
    am = a.ravel() if axis is None else a
    if axis is None:
        vals = [v for v in am if isinstance(v, S) or not (isinstance(v, float) and math.isnan(v))]
        if not vals:
            return float("nan")
        return _reduce(smin, np.array(vals, dtype=object), None)
    mv = np.moveaxis(a, axis, -1)
    r = np.empty(mv.shape[:-1], dtype=object)
    for idx in np.ndindex(*r.shape):
        r[idx] = snanmin(mv[idx])
    return wrap(r)


def snorm(x, ord=None, axis=None, keepdims=False):
    x = np.asarray(x).view(np.ndarray)
    if ord in (None, 2, "fro"):
        if ord == 2 and axis is None and x.ndim == 2:
            raise Inconclusive("spectral norm")
        ss = np.sum(x * x, axis=axis, keepdims=keepdims)
        if isinstance(ss, np.ndarray):
            return wrap(_el(ssqrt, 1)(ss))
        return ssqrt(ss)
    if ord == 1:
        if axis is None and x.ndim == 2:
            raise Inconclusive("matrix 1-norm")
        return wrap(np.sum(_el(sabs, 1)(x), axis=axis, keepdims=keepdims))
    raise Inconclusive(f"norm ord={ord}")


_UFUNC_HOOKS = {}


def _hook(uf):
    h = _UFUNC_HOOKS.get(uf)
    if h is None:
        raise Inconclusive(f"transcendental ufunc {uf.__name__} on symbolic data without a model")
    return h

_FUNCS = {
    np.all: sall, np.any: sany,
    np.min: lambda a, axis=None, out=None, keepdims=False, **k: _reduce(smin, a, axis, keepdims),
    np.max: lambda a, axis=None, out=None, keepdims=False, **k: _reduce(smax, a, axis, keepdims),
    np.amin: lambda a, axis=None, out=None, keepdims=False, **k: _reduce(smin, a, axis, keepdims),
    np.amax: lambda a, axis=None, out=None, keepdims=False, **k: _reduce(smax, a, axis, keepdims),
    np.linalg.solve: linalg_solve,
    np.linalg.inv: linalg_inv,
    np.linalg.det: det,
    np.linalg.norm: snorm,
    np.where: swhere,
    np.isclose: sisclose,
    np.allclose: sallclose,
    np.array_equal: sarray_equal,
    np.sort: ssort,
    np.mean: smean,
    np.prod: sprod,
    np.nanmin: snanmin,
    np.isposinf: lambda a, out=None: np.frompyfunc(lambda v: (not isinstance(v, (S, SB))) and bool(np.isposinf(v)), 1, 1)(np.asarray(a).view(np.ndarray)).astype(bool),
    np.isneginf: lambda a, out=None: np.frompyfunc(lambda v: (not isinstance(v, (S, SB))) and bool(np.isneginf(v)), 1, 1)(np.asarray(a).view(np.ndarray)).astype(bool),
}


# ----------------------------------------------------------------------------- construction helpers

def sym(name, shape=()):
    if shape == ():
        return S(z3.Real(name))
    a = np.empty(shape, dtype=object)
    for idx in np.ndindex(*shape):
        a[idx] = S(z3.Real(name + "_" + "_".join(map(str, idx))))
    return a.view(SymArray)


def const(arr):
    """concrete numbers -> exact rational symbolic constants (no float rounding inside symbolic runs)"""
    if isinstance(arr, (int, float, np.integer, np.floating, fractions.Fraction)):
        return S(lift(arr))
    a = np.asarray(arr)
    out = np.empty(a.shape, dtype=object)
    for idx in np.ndindex(*a.shape):
        v = a[idx]
        out[idx] = v if isinstance(v, S) else S(lift(v))
    return out.view(SymArray)


def terms(a):
    """array of S / numbers -> list of z3 terms (flattened)"""
    if isinstance(a, S):
        return [a.t]
    if isinstance(a, np.ndarray):
        return [lift(v) for v in a.ravel()]
    return [lift(a)]


def model_value(model, t):
    """evaluate z3 real term in a model -> Fraction (None if not numeric, e.g. algebraic number)"""
    v = model.eval(t, model_completion=True)
    if z3.is_rational_value(v):
        return fractions.Fraction(v.numerator_as_long(), v.denominator_as_long())
    if z3.is_algebraic_value(v):
        a = v.approx(30)
        return fractions.Fraction(a.numerator_as_long(), a.denominator_as_long())
    if z3.is_true(v):
        return True
    if z3.is_false(v):
        return False
    return None


def model_array(model, a):
    """symbolic array -> float ndarray under the model"""
    if isinstance(a, S):
        return float(model_value(model, a.t))
    if isinstance(a, SB):
        return bool(model_value(model, a.t))
    if isinstance(a, np.ndarray) and a.dtype == object:
        out = np.empty(a.shape, dtype=float)
        for idx in np.ndindex(*a.shape):
            v = a[idx]
            out[idx] = float(model_value(model, v.t)) if isinstance(v, S) else float(v)
        return out
    return a


# ----------------------------------------------------------------------------- np proxy

class _LinalgProxy:
    def __getattr__(self, name):
        return getattr(np.linalg, name)

    LinAlgError = np.linalg.LinAlgError

    @staticmethod
    def solve(a, b):
        if _has_sym(a) or _has_sym(b):
            return linalg_solve(a, b)
        if Engine.cur is not None:
            return linalg_solve(a, b)
        return np.linalg.solve(a, b)

    @staticmethod
    def inv(a):
        if Engine.cur is not None:
            return linalg_inv(a)
        return np.linalg.inv(a)

    @staticmethod
    def det(a):
        if Engine.cur is not None:
            return det(_exactify(a))
        return np.linalg.det(a)

    @staticmethod
    def norm(x, ord=None, axis=None, keepdims=False):
        if _has_sym(x):
            return snorm(x, ord, axis, keepdims)
        return np.linalg.norm(x, ord=ord, axis=axis, keepdims=keepdims)


def _has_sym(x):
    if isinstance(x, (S, SB)):
        return True
    if isinstance(x, np.ndarray):
        return x.dtype == object
    if isinstance(x, (list, tuple)):
        return any(_has_sym(i) for i in x)
    return False


class NPProxy:
    """stand-in for the `np` global of a dreye module during symbolic runs.

    Array *creation* returns object arrays of exact constants (so that symbolic values can be
    assigned into them); scalar ufunc calls on bare S values are routed to the element models;
    everything else is real numpy."""

    def __init__(self):
        self.linalg = _LinalgProxy()
        self.random = _NoRandom()

    def __getattr__(self, name):
        if name == "pi" and Engine.cur is not None:
            from . import trig
            return trig.pi()
        return getattr(np, name)

    # --- creation
    @staticmethod
    def zeros(shape, dtype=None, **k):
        if dtype is not None and np.dtype(dtype).kind not in "fO":
            return np.zeros(shape, dtype=dtype)
        a = np.empty(shape, dtype=object); a[...] = S(z3.RealVal(0))
        return a.view(SymArray)

    @staticmethod
    def ones(shape, dtype=None, **k):
        if dtype is not None and np.dtype(dtype).kind not in "fO":
            return np.ones(shape, dtype=dtype)
        a = np.empty(shape, dtype=object); a[...] = S(z3.RealVal(1))
        return a.view(SymArray)

    @staticmethod
    def eye(n, *a, **k):
        return const(np.eye(n, *a, **k))

    @staticmethod
    def zeros_like(a, *args, **k):
        return NPProxy.zeros(np.shape(a))

    @staticmethod
    def array(obj, *args, **k):
        dt = k.get("dtype", args[0] if args else None)
        if _has_sym(obj) and dt is not None and np.dtype(dt).kind == "f":
            k = dict(k); k["dtype"] = object
            args = args[1:] if args else args
        r = np.array(strip(obj) if isinstance(obj, SymArray) else obj, *args, **k)
        return wrap(r)

    @staticmethod
    def asarray(a, *args, **k):
        if isinstance(a, SymArray):
            return a
        dt = k.get("dtype", args[0] if args else None)
        if _has_sym(a) and dt is not None and np.dtype(dt).kind == "f":
            # a float view of symbolic data is the symbolic data itself (reals)
            return wrap(np.asarray(a, dtype=object))
        return wrap(np.asarray(a, *args, **k))

    @staticmethod
    def atleast_1d(*a):
        return wrap(np.atleast_1d(*[strip(x) for x in a]))

    @staticmethod
    def atleast_2d(*a):
        return wrap(np.atleast_2d(*[strip(x) for x in a]))

    @staticmethod
    def linspace(start, stop, num=50, endpoint=True, retstep=False, dtype=None, axis=0):
        if not (_has_sym(start) or _has_sym(stop)) and Engine.cur is None:
            return np.linspace(start, stop, num, endpoint=endpoint, retstep=retstep, dtype=dtype, axis=axis)
        if isinstance(num, S):
            raise Inconclusive("symbolic number of points in linspace")
        num = int(num)
        div = (num - 1) if endpoint else num
        a, b = S(lift(start)), S(lift(stop))
        step = (b - a) / div if div > 0 else None
        out = np.empty(num, dtype=object)
        for i in range(num):
            out[i] = a + step * i if step is not None else a
        if endpoint and num > 1:
            out[-1] = b
        if dtype is not None and np.issubdtype(np.dtype(dtype), np.integer):
            # numpy casts the computed grid to the integer type (truncation towards zero); decided for constant grids only
            for i in range(num):
                t = z3.simplify(out[i].t)
                if not z3.is_rational_value(t):
                    raise Inconclusive("integer dtype requested for a linspace over symbolic end points")
                fr = fractions.Fraction(t.numerator_as_long(), t.denominator_as_long())
                out[i] = S(z3.RealVal(int(fr)))  # int() truncates towards zero like the C cast
        out = out.view(SymArray)
        if retstep:
            return out, (step if step is not None else float("nan"))
        return out

    # --- scalar-aware ufuncs
    @staticmethod
    def isfinite(x):
        if isinstance(x, (S, SB)):
            return True
        return np.isfinite(x)

    @staticmethod
    def isnan(x):
        if isinstance(x, (S, SB)):
            return False
        return np.isnan(x)

    @staticmethod
    def sqrt(x):
        if isinstance(x, S):
            return x.sqrt()
        return np.sqrt(x)

    @staticmethod
    def abs(x):
        if isinstance(x, S):
            return abs(x)
        return np.abs(x)

    @staticmethod
    def arccos(x):
        if isinstance(x, S):
            return _UFUNC_HOOKS[np.arccos](x)
        if isinstance(x, np.ndarray) and x.dtype == object and not isinstance(x, SymArray):
            return wrap(_el(_UFUNC_HOOKS[np.arccos], 1)(x))  # object array of plain numbers (e.g. all-zero rows next to nan)
        return np.arccos(x)

    @staticmethod
    def cos(x):
        if isinstance(x, S):
            return _UFUNC_HOOKS[np.cos](x)
        if isinstance(x, np.ndarray) and x.dtype == object and not isinstance(x, SymArray):
            return wrap(_el(_UFUNC_HOOKS[np.cos], 1)(x))  # object array of plain numbers (e.g. all-zero rows next to nan)
        return np.cos(x)

    @staticmethod
    def sin(x):
        if isinstance(x, S):
            return _UFUNC_HOOKS[np.sin](x)
        if isinstance(x, np.ndarray) and x.dtype == object and not isinstance(x, SymArray):
            return wrap(_el(_UFUNC_HOOKS[np.sin], 1)(x))  # object array of plain numbers (e.g. all-zero rows next to nan)
        return np.sin(x)

    @staticmethod
    def minimum(a, b):
        if isinstance(a, S) or isinstance(b, S):
            if not isinstance(a, np.ndarray) and not isinstance(b, np.ndarray):
                return smin(_inf_aware(a), _inf_aware(b)) if not (_is_inf(a) or _is_inf(b)) else _min_inf(a, b)
        return np.minimum(a, b)

    @staticmethod
    def maximum(a, b):
        if isinstance(a, S) or isinstance(b, S):
            if not isinstance(a, np.ndarray) and not isinstance(b, np.ndarray):
                return smax(a, b) if not (_is_inf(a) or _is_inf(b)) else _max_inf(a, b)
        return np.maximum(a, b)

    @staticmethod
    def around(x, decimals=0):
        if isinstance(x, S):
            return sround(x)
        return np.around(x, decimals)

    round = around

    @staticmethod
    def isclose(a, b, rtol=1e-05, atol=1e-08, equal_nan=False):
        if _has_sym(a) or _has_sym(b):
            return sisclose(a, b, rtol, atol)
        return np.isclose(a, b, rtol, atol, equal_nan)

    @staticmethod
    def all(a, *args, **k):
        if isinstance(a, SB):
            return a
        return np.all(a, *args, **k)

    @staticmethod
    def any(a, *args, **k):
        if isinstance(a, SB):
            return a
        return np.any(a, *args, **k)


def _is_inf(v):
    return isinstance(v, (float, np.floating)) and math.isinf(v)


def _inf_aware(v):
    return v


def _min_inf(a, b):
    if _is_inf(a):
        return b if a > 0 else a
    return a if b > 0 else b


def _max_inf(a, b):
    if _is_inf(a):
        return a if a > 0 else b
    return b if b > 0 else a


class _NoRandom:
    """dreye code under symbolic execution must draw randomness only from the stubbed generator"""
    def __getattr__(self, name):
        raise Inconclusive(f"np.random.{name} accessed during a symbolic run (unseeded global entropy source)")


def sround(x, bound=64):
    """round-half-even of a symbolic real -> integer-valued S; forks on the integer value within +-bound"""
    e = E()
    k = e.fresh_int("round")
    kr = z3.ToReal(k)
    e.assume(z3.And(x.t - kr <= z3.RealVal("1/2"), kr - x.t <= z3.RealVal("1/2")))
    # ties: round half to even
    e.assume(z3.Implies(x.t - kr == z3.RealVal("1/2"), k % 2 == 0))
    e.assume(z3.Implies(kr - x.t == z3.RealVal("1/2"), k % 2 == 0))
    return SInt(k, bound)


class SInt(S):
    """integer-valued symbolic real; int() forks on the value"""
    __slots__ = ("k", "bound")

    def __init__(self, k, bound=64):
        S.__init__(self, z3.ToReal(k))
        self.k = k
        self.bound = bound

    def __int__(self):
        e = E()
        for v in range(-1, self.bound + 1):
            if bool(SB(self.k == v)):
                return v
        raise Inconclusive("rounded integer outside the stated bound")

    __index__ = __int__
