"""symcp -- a lazily evaluated stand-in for the subset of cvxpy that dreye uses.

Installed as the module global `cp` of dreye.api.optimize.lsq_linear / dreye.api.convex during symbolic
runs.  Expressions are closures evaluated to SymArrays of z3 terms with numpy semantics.
`Problem.solve()` is the *environment stub*: it binds every variable to fresh symbols x*, assumes
constraints(x*) and records the solve so that the harness can instantiate the optimality contract
    forall x'. constraints(x') -> objective(x*) <= objective(x')
at explicit competitors (quantifier-free).  Modelled cvxpy facts (cvxpy/expressions/leaf.py):
Variable(pos=True) is constrained >= 0; Parameter(pos=True).value = v raises ValueError if any v < 0...
(cvxpy's check is v > 0 up to a tolerance of 1e-8: non-positive values beyond the tolerance are rejected;
exact zero is accepted by the tolerance) ; reshape defaults to Fortran order.
"""
import numpy as np
import z3

from . import symnp
from .symnp import S, SB, E, SymArray, lift, wrap, const

SCS = "SCS"; ECOS = "ECOS"; CLARABEL = "CLARABEL"; OSQP = "OSQP"; SCIPY = "SCIPY"; HIGHS = "HIGHS"

SOLVES = []      # records of every solve() in the current path (cleared by reset())
_LEAVES = []


def reset():
    SOLVES.clear()
    _LEAVES.clear()


def _arr(v):
    if isinstance(v, Expr):
        return v
    return Const(v)


def _shape_of(f, *shapes):
    return np.asarray(f(*[np.zeros(s) for s in shapes])).shape


def _obj(a):
    a = np.asarray(a)
    if a.dtype != object:
        return const(a)
    return a.view(SymArray) if isinstance(a, np.ndarray) else a


class Expr:
    __array_priority__ = 10000
    __array_ufunc__ = None

    def __init__(self, fn, shape, leaves=(), doms=()):
        self.fn = fn
        self.shape = tuple(shape)
        self.leaves = tuple(dict.fromkeys(leaves))
        self.doms = tuple(dict.fromkeys(doms))  # expressions that must be > 0 (domain of log)

    def ev(self):
        return self.fn()

    @property
    def size(self):
        return int(np.prod(self.shape)) if self.shape else 1

    @property
    def ndim(self):
        return len(self.shape)

    def _bin(self, o, f, rev=False):
        o = _arr(o)
        a, b = (o, self) if rev else (self, o)
        shp = np.broadcast_shapes(a.shape, b.shape)
        return Expr(lambda: f(_obj(a.ev()), _obj(b.ev())), shp, a.leaves + b.leaves, a.doms + b.doms)

    def __add__(s, o): return s._bin(o, lambda a, b: a + b)
    def __radd__(s, o): return s._bin(o, lambda a, b: a + b, rev=True)
    def __sub__(s, o): return s._bin(o, lambda a, b: a - b)
    def __rsub__(s, o): return s._bin(o, lambda a, b: a - b, rev=True)
    def __mul__(s, o): return s._bin(o, lambda a, b: a * b)
    def __rmul__(s, o): return s._bin(o, lambda a, b: a * b, rev=True)
    def __truediv__(s, o): return s._bin(o, lambda a, b: a / b)
    def __rtruediv__(s, o): return s._bin(o, lambda a, b: a / b, rev=True)
    def __neg__(s): return Expr(lambda: -_obj(s.ev()), s.shape, s.leaves, s.doms)

    def __pow__(s, p):
        return Expr(lambda: _obj(s.ev()) ** p, s.shape, s.leaves, s.doms)

    def __matmul__(s, o):
        o = _arr(o)
        shp = _shape_of(lambda a, b: a @ b, s.shape, o.shape)
        return Expr(lambda: wrap(symnp._matmul(_obj(s.ev()), _obj(o.ev()))), shp, s.leaves + o.leaves, s.doms + o.doms)

    def __rmatmul__(s, o):
        o = _arr(o)
        shp = _shape_of(lambda a, b: a @ b, o.shape, s.shape)
        return Expr(lambda: wrap(symnp._matmul(_obj(o.ev()), _obj(s.ev()))), shp, o.leaves + s.leaves, o.doms + s.doms)

    def __getitem__(s, idx):
        if isinstance(idx, np.ndarray) and idx.dtype == object:
            idx = symnp.concretize_mask(idx)
        shp = np.zeros(s.shape)[idx].shape
        return Expr(lambda: np.asarray(_obj(s.ev()))[idx], shp, s.leaves, s.doms)

    def __le__(s, o): return Constraint(s, _arr(o), "<=")
    def __ge__(s, o): return Constraint(s, _arr(o), ">=")
    def __eq__(s, o): return Constraint(s, _arr(o), "==")
    __hash__ = object.__hash__

    @property
    def T(s):
        return Expr(lambda: np.asarray(_obj(s.ev())).T, s.shape[::-1], s.leaves, s.doms)

    @property
    def value(s):
        return s.ev()


class Const(Expr):
    def __init__(self, v):
        if isinstance(v, (S, int, float, np.integer, np.floating)):
            arr = np.empty((), dtype=object); arr[()] = v if isinstance(v, S) else S(lift(v))
        else:
            arr = _obj(np.asarray(v))
        super().__init__(lambda: arr, np.shape(arr))


class Leaf(Expr):
    _count = 0

    def __init__(self, shape=(), pos=False, nonneg=False, name=None, **kw):
        if isinstance(shape, (int, np.integer)):
            shape = (int(shape),)
        unsupported = {k: v for k, v in kw.items() if v}
        if unsupported:
            raise symnp.Inconclusive(f"cvxpy leaf attribute not modelled: {unsupported}")
        self._value = None
        self.pos = bool(pos)
        self.nonneg = bool(nonneg)
        Leaf._count += 1
        self.id = Leaf._count
        Expr.__init__(self, self._get, tuple(int(i) for i in shape), (self,))
        _LEAVES.append(self)

    def _get(self):
        if self._value is None:
            raise ValueError("leaf has no value")
        return self._value


class Parameter(Leaf):
    @property
    def value(self):
        return self._value

    @value.setter
    def value(self, v):
        v = _obj(np.asarray(v) if not isinstance(v, S) else v)
        v = np.asarray(v, dtype=object)
        if v.shape != self.shape:
            raise ValueError(f"Invalid dimensions {v.shape} for Parameter value.")
        if self.pos or self.nonneg:
            ok = symnp.sall(wrap(v) >= 0)
            if not ok:  # forks on symbolic data
                raise ValueError("Parameter value must be positive." if self.pos else "Parameter value must be nonnegative.")
        self._value = v.view(SymArray)


class Variable(Leaf):
    @property
    def value(self):
        return self._value

    @value.setter
    def value(self, v):
        self._value = None if v is None else _obj(np.asarray(v))


class Constraint:
    def __init__(self, l, r, op):
        self.l, self.r, self.op = l, r, op
        self.leaves = tuple(dict.fromkeys(l.leaves + r.leaves))
        self.doms = tuple(dict.fromkeys(l.doms + r.doms))

    def formula(self):
        a, b = np.broadcast_arrays(np.asarray(_obj(self.l.ev()), dtype=object), np.asarray(_obj(self.r.ev()), dtype=object))
        out = []
        for x, y in zip(a.ravel(), b.ravel()):
            x, y = lift(x), lift(y)
            out.append({"<=": x <= y, ">=": x >= y, "==": x == y}[self.op])
        return z3.And(out) if out else z3.BoolVal(True)

    def __bool__(self):
        raise TypeError("cvxpy constraint used as a boolean")


def _un(a, f, shape_f=None):
    a = _arr(a)
    shp = _shape_of(shape_f, a.shape) if shape_f else a.shape
    return Expr(lambda: f(_obj(a.ev())), shp, a.leaves, a.doms)


def multiply(a, b):
    return _arr(a) * _arr(b)


def sum(a, axis=None, keepdims=False):  # noqa: A001
    return _un(a, lambda v: np.sum(np.asarray(v), axis=axis, keepdims=keepdims), lambda z: np.sum(z, axis=axis, keepdims=keepdims))


def sum_squares(a):
    return _un(a, lambda v: np.sum(np.asarray(v) ** 2), lambda z: np.sum(z))


def square(a):
    return _un(a, lambda v: np.asarray(v) ** 2)


def abs(a):  # noqa: A001
    return _un(a, lambda v: wrap(np.frompyfunc(symnp.sabs, 1, 1)(np.asarray(v))) if np.ndim(v) else symnp.sabs(v[()] if isinstance(v, np.ndarray) else v))


def _rmax(v):
    return symnp._reduce(symnp.smax, np.asarray(v), None)


def max(a, axis=None):  # noqa: A001
    if axis is not None:
        return _un(a, lambda v: symnp._reduce(symnp.smax, np.asarray(v), axis), lambda z: np.max(z, axis=axis))
    return _un(a, _rmax, lambda z: np.max(z))


def min(a, axis=None):  # noqa: A001
    if axis is not None:
        return _un(a, lambda v: symnp._reduce(symnp.smin, np.asarray(v), axis), lambda z: np.min(z, axis=axis))
    return _un(a, lambda v: symnp._reduce(symnp.smin, np.asarray(v), None), lambda z: np.min(z))


_LOG = z3.Function("ln", z3.RealSort(), z3.RealSort())


def _slog(v):
    return S(_LOG(lift(v)))


def log(a):
    """natural logarithm as an uninterpreted function (no property of ln is assumed); cvxpy adds the domain
    constraint argument > 0, which is modelled (Problem.at collects it)"""
    a = _arr(a)
    r = _un(a, lambda v: wrap(np.frompyfunc(_slog, 1, 1)(np.asarray(v, dtype=object))))
    r.doms = tuple(dict.fromkeys(a.doms + (a,)))
    return r


def norm(a, p=2, axis=None):
    def f(v):
        v = np.asarray(v)
        if p in (2, "fro") or p is None:
            if p == 2 and v.ndim == 2 and axis is None:
                raise symnp.Inconclusive("spectral norm not modelled")
            return symnp.snorm(v, None, axis)
        if p == 1:
            if v.ndim == 2 and axis is None:
                raise symnp.Inconclusive("matrix 1-norm not modelled")
            return symnp.snorm(v, 1, axis)
        raise symnp.Inconclusive(f"norm p={p}")
    return _un(a, f, lambda z: np.linalg.norm(z.ravel() if axis is None else z, axis=axis))


def norm2(a, axis=None):
    return norm(a, 2, axis)


def norm1(a, axis=None):
    return norm(a, 1, axis)


def reshape(a, shape, order=None):
    a = _arr(a)
    if isinstance(shape, (int, np.integer)):
        shape = (int(shape),)
    shape = tuple(int(i) for i in shape)
    od = "F" if order is None else order  # cvxpy 1.x default is Fortran order (it warns about it)
    return Expr(lambda: np.reshape(np.asarray(_obj(a.ev())), shape, order=od), np.reshape(np.zeros(a.shape), shape, order=od).shape, a.leaves, a.doms)


def diff(a, k=1, axis=0):
    return _un(a, lambda v: np.diff(np.asarray(v), n=k, axis=axis), lambda z: np.diff(z, n=k, axis=axis))


def vstack(xs):
    xs = [_arr(x) for x in xs]
    lv = ()
    for x in xs:
        lv += x.leaves
    return Expr(lambda: np.vstack([np.asarray(_obj(x.ev())) for x in xs]), np.vstack([np.zeros(x.shape) for x in xs]).shape, lv)


def hstack(xs):
    xs = [_arr(x) for x in xs]
    lv = ()
    for x in xs:
        lv += x.leaves
    return Expr(lambda: np.hstack([np.asarray(_obj(x.ev())) for x in xs]), np.hstack([np.zeros(x.shape) for x in xs]).shape, lv)


class Minimize:
    def __init__(self, e):
        self.e = _arr(e); self.sign = 1
        if self.e.size != 1:
            raise ValueError("The 'minimize' objective must resolve to a scalar.")


class Maximize:
    def __init__(self, e):
        self.e = _arr(e); self.sign = -1
        if self.e.size != 1:
            raise ValueError("The 'maximize' objective must resolve to a scalar.")


def _scalar(v):
    if isinstance(v, np.ndarray):
        return v.reshape(-1)[0]
    return v


class Problem:
    def __init__(self, objective, constraints=()):
        self.objective = objective
        self.constraints = list(constraints)
        self.value = None
        self.status = None
        lv = list(objective.e.leaves)
        for c in self.constraints:
            if not isinstance(c, Constraint):
                raise TypeError(f"Problem constraint of type {type(c).__name__}")
            lv += list(c.leaves)
        self.leaves = list(dict.fromkeys(lv))

    def variables(self):
        return [l for l in self.leaves if isinstance(l, Variable)]

    def parameters(self):
        return [l for l in self.leaves if isinstance(l, Parameter)]

    def is_dcp(self, dpp=False):
        return True

    def is_dqcp(self):
        return True

    def is_dpp(self):
        return True

    # -- evaluation at an arbitrary assignment of the variables (parameters as currently set / as snapshot)
    def at(self, assignment, params=None):
        """returns (objective S incl. sign => 'smaller is better', z3 formula of all constraints)"""
        saved = {v: v._value for v in self.leaves}
        try:
            if params:
                for p, val in params.items():
                    p._value = val
            for v, a in assignment.items():
                v._value = _obj(np.asarray(a))
            obj = _scalar(_obj(self.objective.e.ev()))
            if not isinstance(obj, S):
                obj = S(lift(obj))
            obj = obj * self.objective.sign
            cons = [c.formula() for c in self.constraints]
            doms = list(self.objective.e.doms)
            for c in self.constraints:
                doms += list(c.doms)
            for d in dict.fromkeys(doms):
                cons += [lift(x) > 0 for x in np.asarray(_obj(d.ev()), dtype=object).ravel()]
            for v in self.variables():
                if v.pos or v.nonneg:
                    cons += [lift(x) >= 0 for x in np.asarray(v._value).ravel()]
            return obj, z3.And(cons) if cons else z3.BoolVal(True)
        finally:
            for v, a in saved.items():
                v._value = a

    def solve(self, **kw):
        e = E()
        params = {p: p._value for p in self.parameters()}
        for p, v in params.items():
            if v is None:
                raise ValueError("A Parameter (whose name is 'param') does not have a value associated with it")
        pc_before = len(e.pc)
        xstar = {}
        k = len(SOLVES)
        for v in self.variables():
            a = np.empty(v.shape, dtype=object)
            for idx in np.ndindex(*v.shape):
                a[idx] = S(z3.Real(f"xstar{k}_{v.id}_" + "_".join(map(str, idx))))
            xstar[v] = a.view(SymArray)
        obj, cons = self.at(xstar, params)
        names = set()
        for a in xstar.values():
            names |= {t.t.decl().name() for t in np.asarray(a).ravel()}
        if getattr(e, "const_mode", False) or symnp._symbols(cons) <= names:
            # all parameters are concrete (const-mode validation run): decide feasibility like a real solver would report it
            verdict, _ = e.solve([cons], timeout_ms=20000, with_pc=getattr(e, "const_mode", False))
            if verdict == "unsat":
                self.value = float("inf")
                self.status = "infeasible"
                for v in xstar:
                    v._value = None
                return self.value
        e.assume(cons)
        for v, a in xstar.items():
            v._value = a
        self.value = obj * self.objective.sign
        self.status = "optimal"
        rec = dict(problem=self, params=params, xstar=xstar, obj=obj, cons=cons, kwargs=kw, pc_before=pc_before, index=k)
        SOLVES.append(rec)
        return self.value


def optimality_instance(rec, alt):
    """contract instance: constraints(alt) -> objective(x*) <= objective(alt).  alt: {Variable: array}"""
    full = dict(rec["xstar"])
    full.update(alt)
    obj_alt, cons_alt = rec["problem"].at(full, rec["params"])
    return z3.Implies(cons_alt, rec["obj"].t <= obj_alt.t), obj_alt, cons_alt


def new_problem_vars(rec, prefix):
    """fresh competitor arrays for every variable of the recorded problem"""
    out = {}
    for v in rec["problem"].variables():
        out[v] = symnp.sym(f"{prefix}{rec['index']}_{v.id}", v.shape) if v.shape else symnp.sym(f"{prefix}{rec['index']}_{v.id}")
    return out
