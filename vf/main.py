"""vcheck driver:  python -m vf.main <Cxx> [--tier quick|thorough] [--jobs N] [--only substr]
                   python -m vf.main replay <file>
"""
import argparse
import hashlib
import importlib
import json
import multiprocessing as mp
import os
import re
import sys
import time
import traceback

ROOT = os.path.dirname(os.path.dirname(os.path.abspath(__file__)))


def _load(prop):
    return importlib.import_module(f"vf.props.{prop.lower()}")


def _worker(args):
    prop, case, tier, seed = args
    import warnings
    warnings.filterwarnings("ignore")
    from vf import harness
    mod = _load(prop)
    body = getattr(mod, case["body"])
    patches = mod.patches(case) if hasattr(mod, "patches") else harness.standard_patches()
    opts = dict(timeout_ms=30000, max_paths=20000, n_validate=2)
    opts.update(case.get("opts", {}))
    float_strict = bool(opts.pop("float_strict", False))
    try:
        r = harness.run_case(prop, case["name"], body, case.get("kwargs", {}), patches, seed=seed,
                             expect_tags=case.get("expect_tags", ()), **opts)
    except BaseException as e:  # noqa
        r = dict(case=case["name"], paths=0, goals=0, unsat=0, sat=0, unknown=0, nontrivial=0, exc_paths=0, reachable=0,
                 solver_s=0.0, violations=[], samples=[], tags=[], stub_hits={}, validate={}, queries=0, feas_queries=0,
                 inconclusive=[dict(label="worker-crash", why="".join(traceback.format_exception(e))[-1500:])], wall_s=0)
    r["body"] = case["body"]
    r["kwargs_raw"] = case.get("kwargs", {})
    r["float_strict"] = float_strict
    return r


from vf.harness import isolated as _isolated  # noqa: E402


def harness_purity_label():
    from vf.harness import M
    return M.PURITY


def run_parallel(work, jobs, case_limit_s):
    """own process pool: one forked child per case with a hard wall-clock limit (a z3 query that ignores its timeout, or compiled code that hangs,
    costs that case -- reported as inconclusive -- and nothing else).  Yields results as they complete; kills the rest when the consumer stops."""
    import pickle
    import select
    import signal
    pending = list(work)
    running = {}  # fd -> (pid, case, t0, chunks)
    try:
        while pending or running:
            while pending and len(running) < jobs:
                w = pending.pop(0)
                rd, wr = os.pipe()
                pid = os.fork()
                if pid == 0:
                    try:
                        os.close(rd)
                        for fd_ in list(running):
                            try:
                                os.close(fd_)
                            except OSError:
                                pass
                        out = _worker(w)
                        with os.fdopen(wr, "wb") as f:
                            f.write(pickle.dumps(out))
                    finally:
                        os._exit(0)
                os.close(wr)
                running[rd] = (pid, w[1], time.time(), [])
            ready, _, _ = select.select(list(running), [], [], 1.0)
            for fd in ready:
                c = os.read(fd, 1 << 20)
                pid, case, t0_, chunks = running[fd]
                if c:
                    chunks.append(c)
                    continue
                os.close(fd)
                del running[fd]
                try:
                    os.waitpid(pid, 0)
                except ChildProcessError:
                    pass
                try:
                    yield pickle.loads(b"".join(chunks))
                except Exception as e:  # noqa
                    yield _crashed(case, f"worker died without a result ({e!r})")
            now = time.time()
            for fd in list(running):
                pid, case, t0_, chunks = running[fd]
                if now - t0_ > case_limit_s:
                    try:
                        os.kill(pid, signal.SIGKILL)
                        os.waitpid(pid, 0)
                    except (ProcessLookupError, ChildProcessError):
                        pass
                    os.close(fd)
                    del running[fd]
                    yield _crashed(case, f"case exceeded the wall-clock limit of {case_limit_s:.0f} s (a solver query ignored its timeout or compiled code hung)")
    finally:
        for fd, (pid, case, t0_, chunks) in running.items():
            try:
                os.kill(pid, signal.SIGKILL)
                os.waitpid(pid, 0)
            except (ProcessLookupError, ChildProcessError):
                pass
            try:
                os.close(fd)
            except OSError:
                pass


def _crashed(case, why):
    return dict(case=case["name"], body=case["body"], kwargs_raw=case.get("kwargs", {}), paths=0, goals=0, unsat=0, sat=0, unknown=0, nontrivial=0, exc_paths=0,
                reachable=0, solver_s=0.0, violations=[], samples=[], tags=[], stub_hits={}, validate={}, queries=0, feas_queries=0,
                inconclusive=[dict(label="case-limit", why=why)], wall_s=0)


def replay_record(rec, timeout=120):
    """run the real, unpatched code on the recorded float inputs (in a child process); returns (reproduced, message)"""
    return _isolated(_replay_record, (rec,), timeout, (False, "replay did not finish within the time limit"))


def _replay_record(rec):
    import warnings
    warnings.filterwarnings("ignore")
    from vf import harness
    import numpy as np
    mod = _load(rec["property"])
    body = getattr(mod, rec["body"])
    values = {k: (np.array(v, dtype=float) if isinstance(v, list) else v) for k, v in rec["values"].items()}
    try:
        goals, m, exc = harness.run_float(body, rec.get("kwargs", {}), values, tol=rec.get("tol", 1e-6))
    except harness.SkipSample:
        return False, "inputs do not satisfy the case assumptions in float64"
    label = rec["label"]
    if label.startswith("no-exception"):
        if exc is not None:
            return True, f"real code raised {type(exc).__name__}: {exc}"
        return False, "real code did not raise"
    if exc is not None:
        return True, f"real code raised {type(exc).__name__}: {exc} (while checking '{label}')"
    if label in goals and not goals[label]:
        return True, f"clause '{label}' is false on the real code"
    if label not in goals:
        # the clause is phrased over symbolic observables only; its float-mode counterparts are the other clauses of the same case
        bad = [k for k, v in goals.items() if not v]
        if bad:
            return True, f"clause '{bad[0]}' (float-mode counterpart of '{label}') is false on the real code"
    return False, f"clause '{label}' holds on the real code for the model inputs"


def search_witness(rec, n=24, seed=0, budget_s=60.0):
    return _isolated(_search_witness, (rec, n, seed, budget_s), budget_s + 30, None)


def _search_witness(rec, n=24, seed=0, budget_s=60.0):
    """the solver said `sat` but its model is not a counterexample for the *real* back end (the symbolic x* is far less constrained than a real
    optimum).  Look for a concrete witness of the same clause among random well-scaled inputs of the same case, on the unpatched code."""
    import warnings
    warnings.filterwarnings("ignore")
    from vf import harness
    import numpy as np
    mod = _load(rec["property"])
    body = getattr(mod, rec["body"])
    t0 = time.time()
    for i in range(n):
        if time.time() - t0 > budget_s:
            break
        m = harness.M("float", rng=np.random.default_rng(seed * 1000 + 7919 + i))
        try:
            goals = harness.with_purity(m, body(m, **rec.get("kwargs", {}))) or {}
            exc = None
        except harness.SkipSample:
            continue
        except Exception as e:  # noqa
            goals, exc = {}, e
        label = rec["label"]
        if label.startswith("no-exception"):
            bad = exc is not None
        elif exc is None and label in goals:
            bad = not bool(harness.split_goal(goals[label])[0])
        else:
            bad = exc is None and label not in goals and any(not bool(harness.split_goal(g)[0]) for g in goals.values())
        if bad:
            return {k: (v.tolist() if hasattr(v, "tolist") else v) for k, v in m.values.items()}
    return None


def load_known():
    p = os.path.join(ROOT, "known_findings.json")
    if not os.path.exists(p):
        return []
    return json.load(open(p)).get("findings", [])


def match_known(known, prop, case, label):
    for k in known:
        if k["property"] != prop:
            continue
        if re.search(k.get("case", ".*"), case) and re.search(k.get("label", ".*"), label):
            return k
    return None


_DEMO_CACHE = {}


def known_demo_reproduces(k):
    """a known finding carries the concrete input that demonstrates it on the real code; it must still reproduce"""
    key = k.get("id") or k.get("what")
    if key not in _DEMO_CACHE:
        d = k.get("demo")
        if not d:
            _DEMO_CACHE[key] = (False, "no stored demonstration")
        else:
            rec = dict(property=k["property"], body=d["body"], kwargs=d.get("kwargs", {}), label=d["label"], values=d["values"], tol=d.get("tol", 1e-6))
            try:
                _DEMO_CACHE[key] = replay_record(rec)
            except Exception as e:  # noqa
                _DEMO_CACHE[key] = (False, f"demonstration crashed: {e!r}")
    return _DEMO_CACHE[key]


def main(argv=None):
    argv = argv if argv is not None else sys.argv[1:]
    if argv and argv[0] == "replay":
        rec = json.load(open(argv[1]))
        ok, msg = replay_record(rec)
        print(("REPRODUCED: " if ok else "NOT REPRODUCED: ") + msg)
        if ok:
            print(f"VIOLATION property={rec['property']} replay={argv[1]}")
        return 1 if ok else 0
    ap = argparse.ArgumentParser()
    ap.add_argument("prop")
    ap.add_argument("--tier", default=os.environ.get("VERIF_TIER", "quick"))
    ap.add_argument("--jobs", type=int, default=int(os.environ.get("VERIF_JOBS", "0")))
    ap.add_argument("--only", default=None)
    a = ap.parse_args(argv)
    prop = a.prop.upper()
    seed = int(os.environ.get("VERIF_SEED", "0") or 0)
    t0 = time.time()
    import faulthandler, signal
    faulthandler.register(signal.SIGUSR1, all_threads=True)  # kill -USR1 <pid> prints the Python stack (debugging aid)
    import warnings
    warnings.filterwarnings("ignore")
    import dreye.api.estimator  # noqa: imported before forking so that the workers inherit it
    from vf import harness  # noqa
    mod = _load(prop)
    cases = mod.cases(a.tier, seed)
    if a.only:
        cases = [c for c in cases if a.only in c["name"]]
    jobs = a.jobs or min(len(cases), os.cpu_count() or 1, 16)
    work = [(prop, c, a.tier, seed) for c in cases]
    known = load_known()
    os.makedirs(os.path.join(ROOT, "replays"), exist_ok=True)
    violations, known_hits, inconclusive = [], [], []
    search_budget = [240.0]
    searched = set()
    replayed_box = [0]
    results = []
    numeric_notes = []

    def process(r):
        """replay the solver models of one finished case on the real code and classify them"""
        for inc in r["inconclusive"]:
            inconclusive.append((r["case"], inc))
        seen = set()
        for v in r["violations"]:
            key = (r["case"], v["label"])
            if key in seen:
                continue
            seen.add(key)
            rec = dict(property=prop, case=r["case"], body=r["body"], kwargs=r["kwargs_raw"], label=v["label"],
                       values=v["values"], trace=v.get("trace"))
            h = hashlib.sha1(json.dumps(rec, sort_keys=True, default=str).encode()).hexdigest()[:10]
            path = os.path.join(ROOT, "replays", f"{prop}-{h}.json")
            json.dump(rec, open(path, "w"), indent=1, default=str)
            ok, msg = replay_record(rec)
            replayed_box[0] += 1
            if not ok and v.get("alt_values"):
                rec2 = dict(rec, values=v["alt_values"])
                ok2, msg2 = replay_record(rec2)
                replayed_box[0] += 1
                if ok2:
                    ok, msg, rec = ok2, msg2, rec2
                    json.dump(rec, open(path, "w"), indent=1, default=str)
            k = match_known(known, prop, r["case"], v["label"])
            if not ok and not k and search_budget[0] > 0 and (r["case"], v["label"].split(":")[-1]) not in searched:
                searched.add((r["case"], v["label"].split(":")[-1]))
                ts = time.time()
                w = search_witness(rec, seed=seed, budget_s=min(45.0, search_budget[0]))
                search_budget[0] -= time.time() - ts
                if w is not None:
                    rec3 = dict(rec, values=w, witness="random search after solver sat")
                    ok3, msg3 = replay_record(rec3)
                    replayed_box[0] += 1
                    if ok3:
                        ok, msg, rec = ok3, msg3 + " (witness found by random search of the same case after the solver's sat verdict)", rec3
                        json.dump(rec, open(path, "w"), indent=1, default=str)
            if ok:
                if k:
                    known_hits.append((k, r["case"], v["label"], msg))
                else:
                    violations.append((path, r["case"], v["label"], msg))
            else:
                if k and known_demo_reproduces(k)[0]:
                    # same case class and clause as a recorded finding whose stored input still fails on the real code
                    known_hits.append((k, r["case"], v["label"], "stored demonstration: " + known_demo_reproduces(k)[1]))
                else:
                    inconclusive.append((r["case"], dict(label=v["label"], why="solver model did not reproduce on the real code: " + msg, replay=path)))
        # translator validation mismatches (a goal failure on a clause that is a known finding is the finding itself)
        mm = []
        allmm = r.get("validate", {}).get("mismatch", [])
        both = {(x.get("label"), json.dumps(x.get("values"), sort_keys=True, default=str)) for x in allmm if x.get("kind") == "const-goal"} & \
               {(x.get("label"), json.dumps(x.get("values"), sort_keys=True, default=str)) for x in allmm if x.get("kind") == "float-goal"}
        promoted = set()
        exact_fail = bool(r["violations"]) or any(x.get("kind") == "const-goal" for x in allmm)
        for x in allmm:
            key = (x.get("label"), json.dumps(x.get("values"), sort_keys=True, default=str))
            # a clause that fails on a sampled input of the real code is reported when the exact model of the SAME case also has a failing clause
            # (same label and input, or -- clauses are phrased per mode -- any clause of the case)
            # float_strict cases: closed-form numpy code without an iterative solver, whose float64 run is reproducible to ~1e-12 while clauses are
            # compared at 1e-6: a clause failing on the REAL code for a concrete in-domain input is a counterexample in itself (used where the failure
            # is invisible to real arithmetic by construction: integer-typed arrays truncating real values)
            # (the generic purity clause is an exact comparison of the caller's arrays before / after on the real code: always decisive)
            strict = x.get("kind") == "float-goal" and (r.get("float_strict") or x.get("label") == harness_purity_label())
            if (key in both or strict or (x.get("kind") == "float-goal" and exact_fail)) and key not in promoted and not match_known(known, prop, r["case"], x.get("label", "")):
                # the clause fails on a concrete input both in exact rational arithmetic (patched code) and on the real code: a replayable counterexample
                promoted.add(key)
                rec = dict(property=prop, case=r["case"], body=r["body"], kwargs=r["kwargs_raw"], label=x["label"], values=x["values"])
                h = hashlib.sha1(json.dumps(rec, sort_keys=True, default=str).encode()).hexdigest()[:10]
                path = os.path.join(ROOT, "replays", f"{prop}-{h}.json")
                json.dump(rec, open(path, "w"), indent=1, default=str)
                ok, msg = replay_record(rec)
                replayed_box[0] += 1
                if ok:
                    violations.append((path, r["case"], rec["label"], msg + " (sampled input; fails in exact arithmetic and on the real code)"))
        for x in allmm:
            if (x.get("label"), json.dumps(x.get("values"), sort_keys=True, default=str)) in promoted and violations:
                continue
            if x.get("kind") == "exception-differs" and any(t in x.get("real", "") for t in ("did not converge", "failed. Try another solver")):
                # the compiled solver gave up numerically on a sampled instance that is feasible in exact arithmetic: solver accuracy is outside every claim
                numeric_notes.append(dict(case=r["case"], note=x.get("real", "")[:160]))
                continue
            if x.get("kind") == "exception-differs" and x.get("real", "None") != "None" and x.get("sym", "None") == "None":
                # the real code raised on a concrete in-domain input for which the encoding has no exception path: replay it as a violation
                rec = dict(property=prop, case=r["case"], body=r["body"], kwargs=r["kwargs_raw"], label=f"no-exception[{x['real'][:80]}]", values=x["values"])
                h = hashlib.sha1(json.dumps(rec, sort_keys=True, default=str).encode()).hexdigest()[:10]
                path = os.path.join(ROOT, "replays", f"{prop}-{h}.json")
                json.dump(rec, open(path, "w"), indent=1, default=str)
                ok, msg = replay_record(rec)
                replayed_box[0] += 1
                if ok:
                    k = match_known(known, prop, r["case"], rec["label"])
                    (known_hits if k else violations).append(((k if k else path), r["case"], rec["label"], msg))
                    continue
            if x.get("kind") in ("const-goal", "float-goal"):
                k = match_known(known, prop, r["case"], x.get("label", ""))
                if k and known_demo_reproduces(k)[0]:
                    continue
            mm.append(x)
        if mm:
            inconclusive.append((r["case"], dict(label="translator-validation", why=json.dumps(mm, default=str)[:600])))

    stopped_early = False
    case_limit = float(os.environ.get("VERIF_CASE_LIMIT_S", "900" if a.tier != "thorough" else "3600"))
    if jobs > 1:
        for r in run_parallel(work, jobs, case_limit):
            results.append(r)
            process(r)
            if violations and os.environ.get("VERIF_KEEP_GOING", "0") != "1":
                stopped_early = True  # a replayed violation decides the check; the remaining cases are not needed for the verdict
                break
    else:
        for w_ in work:
            r = _worker(w_)
            results.append(r)
            process(r)
            if violations and os.environ.get("VERIF_KEEP_GOING", "0") != "1":
                stopped_early = True
                break
    results.sort(key=lambda r: r["case"])
    replayed = replayed_box[0]

    # ---- evidence
    meta = getattr(mod, "META", {})
    tot = lambda k: sum(r.get(k, 0) for r in results)
    samples = []
    for r in results:
        samples.extend(r["samples"][:1])
    samples = samples[:8] or [dict(note="no non-trivial obligation was generated")]
    stub_hits = {}
    for r in results:
        for k, v in r.get("stub_hits", {}).items():
            stub_hits[k] = stub_hits.get(k, 0) + v
    ev = dict(
        property_id=prop, tier=a.tier if a.tier in ("quick", "thorough") else "quick", seed=seed, level="model_checking",
        coverage=dict(
            evaluations=tot("queries") + tot("feas_queries"),
            distinct_nontrivial=tot("nontrivial"),
            rule="one evaluation = one SMT query (goal or path-feasibility) over the encoding obtained by running the real "
                 "functions on symbolic object arrays; distinct_nontrivial = goals whose simplified z3 term is not the literal "
                 "True, de-duplicated by term hash per case",
            samples=samples,
            states=max(1, tot("paths")), transitions=max(1, tot("feas_queries")),
            traces_validated_against_impl=sum(r.get("validate", {}).get("runs", 0) for r in results) + replayed,
            states_rule="states = symbolic path states explored (one per executed path of the real code); transitions = path-feasibility decisions taken "
                        "by the solver during exploration; traces_validated_against_impl = inputs pushed through both the symbolic encoding and the "
                        "unpatched real code (translator validation) plus solver models replayed on the real code",
            obligations=tot("goals"), discharged=tot("unsat"), sat=tot("sat"), unknown=tot("unknown"),
            paths=tot("paths"), reachable_paths=tot("reachable"), exception_paths=tot("exc_paths"),
            cases=[dict(case=r["case"], paths=r["paths"], goals=r["goals"], unsat=r["unsat"], sat=r["sat"], unknown=r["unknown"],
                        solver_s=r["solver_s"], wall_s=r.get("wall_s"), tags=r["tags"], truncated_paths_left=r.get("truncated_paths_left", 0),
                        validate={k: (v if k != "mismatch" else len(v)) for k, v in r.get("validate", {}).items()})
                   for r in results],
            solver_s=round(tot("solver_s"), 2), sat_replayed=replayed,
            functions_encoded=meta.get("functions", []), bounds=meta.get("bounds", {}).get(a.tier, meta.get("bounds")),
            stubs=meta.get("stubs", []), stub_hits=stub_hits, outside_claim=meta.get("outside", []),
            translator_validation=dict(runs=sum(r.get("validate", {}).get("runs", 0) for r in results),
                                       observed_compared=sum(r.get("validate", {}).get("observed_compared", 0) for r in results),
                                       mismatches=sum(len(r.get("validate", {}).get("mismatch", [])) for r in results)),
            cases_planned=len(cases), cases_run=len(results), stopped_after_first_violation=stopped_early,
            exhaustive=False, solver="z3 " + __import__("z3").get_version_string(),
            numeric_notes=numeric_notes[:10],
            known_findings_hit=[k[0].get("id", k[0].get("what")) for k in known_hits],
            inconclusive=[dict(case=c, **{k: str(v)[:300] for k, v in i.items()}) for c, i in inconclusive][:20],
        ),
        assumptions=meta.get("assumptions", []),
        wall_s=round(time.time() - t0, 2),
        violations=len(violations),
    )
    evdir = os.environ.get("VERIF_EVIDENCE_DIR") or os.path.join(ROOT, "evidence")  # development runs against seeded worktrees write elsewhere
    os.makedirs(evdir, exist_ok=True)
    json.dump(ev, open(os.path.join(evdir, f"{prop}.json"), "w"), indent=1, default=str)

    for r in results:
        print(f"  {r['case']}: paths={r['paths']} goals={r['goals']} unsat={r['unsat']} sat={r['sat']} unknown={r['unknown']} "
              f"solver={r['solver_s']}s wall={r.get('wall_s')}s tv={r.get('validate', {}).get('runs', 0)}"
              + (f" slowest={r.get('slow')[:2]}" if r.get("slow") and r["slow"][0][0] > 5 else ""))
    printed = set()
    for k, case, label, msg in known_hits:
        kid = k.get("id") or k.get("what")
        if kid in printed:
            continue
        printed.add(kid)
        n_ = sum(1 for kk in known_hits if (kk[0].get("id") or kk[0].get("what")) == kid)
        print(f"KNOWN-FINDING: property={prop} {kid}: {k.get('what', '')} [{n_} obligation(s), e.g. case '{case}', clause '{label}': {msg}]")
    for path, case, label, msg in violations:
        print(f"  case {case}, clause {label}: {msg}")
        print(f"VIOLATION property={prop} replay={path}")
    if violations:
        return 1
    if inconclusive:
        for c, i in inconclusive[:20]:
            print(f"INCONCLUSIVE property={prop} case={c} {i.get('label')}: {str(i.get('why'))[:400]}")
        return 2
    print(f"OK property={prop} tier={a.tier} obligations={ev['coverage']['obligations']} discharged={ev['coverage']['discharged']} "
          f"paths={ev['coverage']['paths']} solver_s={ev['coverage']['solver_s']} wall_s={ev['wall_s']}")
    return 0


if __name__ == "__main__":
    sys.exit(main())
