"""Contract stubs for compiled components (DESIGN.md section 3)."""
import importlib

import numpy as np
import z3

from . import symnp
from .symnp import E, S, SB, SymArray, lift, wrap


def normalize_stub(X, norm="l2", axis=1, copy=True, return_norm=False):
    """sklearn.preprocessing.normalize(X, 'l1', axis=1): rows divided by the sum of absolute values; all-zero rows unchanged"""
    if not symnp._has_sym(X):
        from sklearn.preprocessing import normalize
        return normalize(X, norm=norm, axis=axis, copy=copy, return_norm=return_norm)
    if norm != "l1" or axis != 1 or return_norm:
        raise symnp.Inconclusive("normalize stub: only norm='l1', axis=1 is modelled")
    X = np.asarray(X).view(np.ndarray)
    if X.ndim != 2:
        raise ValueError(f"Expected 2D array, got {X.ndim}D array instead")
    out = np.empty(X.shape, dtype=object)
    for i in range(X.shape[0]):
        tot = 0
        for v in X[i]:
            tot = tot + abs(v if isinstance(v, S) else S(lift(v)))
        den = S(z3.If(tot.t == 0, z3.RealVal(1), tot.t)) if isinstance(tot, S) else (tot if tot != 0 else 1)
        for j in range(X.shape[1]):
            out[i, j] = X[i, j] / den
    return out.view(SymArray)


def normalize_patches():
    P = []
    for name in ("dreye.api.barycentric", "dreye.api.estimator"):
        m = importlib.import_module(name)
        P.append((m, "normalize", normalize_stub))
    return P


# ----------------------------------------------------------------------------- qhull

try:
    from scipy.spatial import QhullError
except ImportError:  # pragma: no cover
    from scipy.spatial.qhull import QhullError

QHULL_CALLS = []          # records of Delaunay / ConvexHull stub calls on the current path
QHULL_POLICY = {"fulldim": lambda P: True}


def qhull_reset(fulldim=None):
    QHULL_CALLS.clear()
    QHULL_POLICY["fulldim"] = fulldim or (lambda P: True)


class DelaunayStub:
    """scipy.spatial.Delaunay contract: find_simplex(b) >= 0  <=>  b in conv(points)   (used by explicit instances);
    QhullError iff the cloud is not full-dimensional (decided by the case's structural policy); ValueError for 1-D data (as scipy)."""

    def __init__(self, points, qhull_options=None, **kw):
        if isinstance(points, DelaunayStub):
            points = points.points
        P = np.asarray(points)
        if not symnp._has_sym(P) and symnp.Engine.cur is None:
            raise symnp.Inconclusive("Delaunay stub used outside a symbolic run")
        if P.ndim != 2:
            raise ValueError("Input points array must have 2 dimensions.")
        if P.shape[1] < 2:
            raise ValueError("Need at least 2-D data")
        if not QHULL_POLICY["fulldim"](P):
            raise QhullError("QH6154 Qhull precision error: Initial simplex is flat (stub: cloud not full-dimensional)")
        self.points = P.view(SymArray) if P.dtype == object else P
        self.ndim = P.shape[1]
        self.npoints = P.shape[0]

    def find_simplex(self, xi, **kw):
        B = np.asarray(xi)
        single = B.ndim == 1
        B2 = np.atleast_2d(B)
        e = E()
        k = len(QHULL_CALLS)
        flags = [z3.Bool(f"inhull!{k}_{i}") for i in range(B2.shape[0])]
        QHULL_CALLS.append(dict(kind="delaunay", P=self.points, B=B2, flags=flags))
        r = np.empty(B2.shape[0], dtype=object)
        for i, f in enumerate(flags):
            r[i] = S(z3.If(f, z3.RealVal(0), z3.RealVal(-1)))
        r = r.view(SymArray)
        return r[0] if single else r


def qhull_patches(delaunay_modules=("dreye.api.convex",), hull_modules=()):
    P = []
    for name in delaunay_modules:
        m = importlib.import_module(name)
        P.append((m, "Delaunay", DelaunayStub))
    return P


def conv_weights_instance(prefix, P, b):
    """fresh lambda >= 0, sum = 1, sum lambda_c P_c = b  (the existential of 'b in conv(P)' skolemised)"""
    P = np.asarray(P); b = np.asarray(b)
    lam = [z3.Real(f"{prefix}_{c}") for c in range(P.shape[0])]
    f = [l >= 0 for l in lam] + [z3.Sum(lam) == 1]
    for d in range(P.shape[1]):
        f.append(z3.Sum([lam[c] * lift(P[c, d]) for c in range(P.shape[0])]) == lift(b[d]))
    return lam, z3.And(f)


def conv_formula(lam, P, b):
    """formula: the given weights are convex weights expressing b over the rows of P"""
    P = np.asarray(P); b = np.asarray(b)
    f = [lift(l) >= 0 for l in lam] + [z3.Sum([lift(l) for l in lam]) == 1]
    for d in range(P.shape[1]):
        f.append(z3.Sum([lift(lam[c]) * lift(P[c, d]) for c in range(P.shape[0])]) == lift(b[d]))
    return z3.And(f)
