"""Contract stubs for compiled components (DESIGN.md section 3)."""
import importlib

import numpy as np
import z3

from . import symnp
from .symnp import E, S, SB, SymArray, lift, wrap


def normalize_stub(X, norm="l2", axis=1, copy=True, return_norm=False):
    """sklearn.preprocessing.normalize(X, 'l1', axis=1): rows divided by the sum of absolute values; all-zero rows unchanged"""
    if not symnp._has_sym(X):
        from sklearn.preprocessing import normalize
        return normalize(X, norm=norm, axis=axis, copy=copy, return_norm=return_norm)
    if norm != "l1" or axis != 1 or return_norm:
        raise symnp.Inconclusive("normalize stub: only norm='l1', axis=1 is modelled")
    X = np.asarray(X).view(np.ndarray)
    if X.ndim != 2:
        raise ValueError(f"Expected 2D array, got {X.ndim}D array instead")
    out = np.empty(X.shape, dtype=object)
    for i in range(X.shape[0]):
        tot = 0
        for v in X[i]:
            tot = tot + abs(v if isinstance(v, S) else S(lift(v)))
        den = S(z3.If(tot.t == 0, z3.RealVal(1), tot.t)) if isinstance(tot, S) else (tot if tot != 0 else 1)
        for j in range(X.shape[1]):
            out[i, j] = X[i, j] / den
    return out.view(SymArray)


def normalize_patches():
    P = []
    for name in ("dreye.api.barycentric", "dreye.api.estimator"):
        m = importlib.import_module(name)
        P.append((m, "normalize", normalize_stub))
    return P


# ----------------------------------------------------------------------------- qhull

try:
    from scipy.spatial import QhullError
except ImportError:  # pragma: no cover
    from scipy.spatial.qhull import QhullError

QHULL_CALLS = []          # records of Delaunay / ConvexHull stub calls on the current path
QHULL_POLICY = {"fulldim": lambda P: True}


def qhull_reset(fulldim=None):
    QHULL_CALLS.clear()
    QHULL_POLICY["fulldim"] = fulldim or (lambda P: True)


class DelaunayStub:
    """scipy.spatial.Delaunay contract: find_simplex(b) >= 0  <=>  b in conv(points)   (used by explicit instances);
    QhullError iff the cloud is not full-dimensional (decided by the case's structural policy); ValueError for 1-D data (as scipy)."""

    def __init__(self, points, qhull_options=None, **kw):
        if isinstance(points, DelaunayStub):
            points = points.points
        P = np.asarray(points)
        if not symnp._has_sym(P) and symnp.Engine.cur is None:
            raise symnp.Inconclusive("Delaunay stub used outside a symbolic run")
        if P.ndim != 2:
            raise ValueError("Input points array must have 2 dimensions.")
        if P.shape[1] < 2:
            raise ValueError("Need at least 2-D data")
        if not QHULL_POLICY["fulldim"](P):
            raise QhullError("QH6154 Qhull precision error: Initial simplex is flat (stub: cloud not full-dimensional)")
        self.points = P.view(SymArray) if P.dtype == object else P
        self.ndim = P.shape[1]
        self.npoints = P.shape[0]

    def find_simplex(self, xi, **kw):
        B = np.asarray(xi)
        single = B.ndim == 1
        B2 = np.atleast_2d(B)
        e = E()
        k = len(QHULL_CALLS)
        flags = [z3.Bool(f"inhull!{k}_{i}") for i in range(B2.shape[0])]
        QHULL_CALLS.append(dict(kind="delaunay", P=self.points, B=B2, flags=flags))
        r = np.empty(B2.shape[0], dtype=object)
        for i, f in enumerate(flags):
            r[i] = S(z3.If(f, z3.RealVal(0), z3.RealVal(-1)))
        r = r.view(SymArray)
        return r[0] if single else r


def qhull_patches(delaunay_modules=("dreye.api.convex",), hull_modules=()):
    P = []
    for name in delaunay_modules:
        m = importlib.import_module(name)
        P.append((m, "Delaunay", DelaunayStub))
    return P


def conv_weights_instance(prefix, P, b):
    """fresh lambda >= 0, sum = 1, sum lambda_c P_c = b  (the existential of 'b in conv(P)' skolemised)"""
    P = np.asarray(P); b = np.asarray(b)
    lam = [z3.Real(f"{prefix}_{c}") for c in range(P.shape[0])]
    f = [l >= 0 for l in lam] + [z3.Sum(lam) == 1]
    for d in range(P.shape[1]):
        f.append(z3.Sum([lam[c] * lift(P[c, d]) for c in range(P.shape[0])]) == lift(b[d]))
    return lam, z3.And(f)


def conv_formula(lam, P, b):
    """formula: the given weights are convex weights expressing b over the rows of P"""
    P = np.asarray(P); b = np.asarray(b)
    f = [lift(l) >= 0 for l in lam] + [z3.Sum([lift(l) for l in lam]) == 1]
    for d in range(P.shape[1]):
        f.append(z3.Sum([lift(lam[c]) * lift(P[c, d]) for c in range(P.shape[0])]) == lift(b[d]))
    return z3.And(f)


class ConvexHullStub:
    """scipy.spatial.ConvexHull contract: `.equations` rows (n, o) with |n| = 1 and n.p + o <= 0 for every input point (each facet is a supporting
    half-space); conv(points) = {x : N x + o <= 0} is available to the harness as an explicit instance (QHULL_CALLS records the call);
    `.vertices` = all point indices (a superset of the true vertices has the same hull); `.volume` an opaque positive symbol.
    The number of facets is fixed by the case (policy 'nfacets')."""

    def __init__(self, points, qhull_options=None, **kw):
        P = np.asarray(points)
        if P.ndim != 2:
            raise ValueError("Input points array must have 2 dimensions.")
        if P.shape[1] < 2:
            raise ValueError("Need at least 2-D data")
        if not QHULL_POLICY["fulldim"](P):
            raise QhullError("QH6154 Qhull precision error: Initial simplex is flat (stub: cloud not full-dimensional)")
        e = E()
        dim = P.shape[1]
        if P.dtype == object and all(z3.is_rational_value(z3.simplify(lift(v))) or z3.is_algebraic_value(z3.simplify(lift(v))) for v in P.ravel()) \
                and QHULL_POLICY.get("concrete_passthrough", True):
            # concrete cloud: the real qhull runs on its float64 image; facets enter as the exact rationals of the floats it returns
            from scipy.spatial import ConvexHull as RealHull
            Pf = np.array([[float(symnp.model_value(z3.Model(), lift(v)) if False else _const_float(v)) for v in row] for row in P])
            real = RealHull(Pf)
            self.points = P.view(SymArray)
            self.equations = symnp.const(real.equations)
            self.vertices = real.vertices
            self.volume = symnp.const(real.volume)
            self._simplices = real.simplices
            QHULL_CALLS.append(dict(kind="convexhull-concrete", P=self.points, equations=self.equations))
            return
        nf = QHULL_POLICY.get("nfacets", lambda d: d + 1)(dim)
        k = len(QHULL_CALLS)
        eq = np.empty((nf, dim + 1), dtype=object)
        for f in range(nf):
            for d in range(dim + 1):
                eq[f, d] = S(z3.Real(f"facet!{k}_{f}_{d}"))
            e.assume(z3.Sum([eq[f, d].t * eq[f, d].t for d in range(dim)]) == 1)
            for p in P:
                e.assume(z3.Sum([eq[f, d].t * lift(p[d]) for d in range(dim)]) + eq[f, dim].t <= 0)
        self.points = P.view(SymArray) if P.dtype == object else P
        self.equations = eq.view(SymArray)
        self.vertices = np.arange(P.shape[0])
        self.volume = S(z3.Real(f"hullvolume!{k}"))
        e.assume(self.volume.t > 0)
        QHULL_CALLS.append(dict(kind="convexhull", P=self.points, equations=self.equations))

    @property
    def simplices(self):
        if getattr(self, "_simplices", None) is not None:
            return self._simplices
        raise symnp.Inconclusive("ConvexHull.simplices is not modelled")


def _const_float(v):
    t = z3.simplify(lift(v))
    if z3.is_rational_value(t):
        return t.numerator_as_long() / t.denominator_as_long()
    a = t.approx(30)
    return a.numerator_as_long() / a.denominator_as_long()


# ----------------------------------------------------------------------------- scipy.interpolate.interp1d

INTERP_CALLS = []


def _sorted_perm(x):
    """indices sorting x ascending (insertion sort deciding comparisons by forking; with monotone domains only one order is feasible)"""
    idx = list(range(len(x)))
    for i in range(1, len(idx)):
        j = i
        while j > 0 and bool(x[idx[j - 1]] > x[idx[j]]):
            idx[j - 1], idx[j] = idx[j], idx[j - 1]
            j -= 1
    return idx


class Interp1dStub:
    """scipy.interpolate.interp1d(x, y, kind='linear', axis, fill_value, bounds_error): sorts x (and y along axis), piecewise-linear inside
    [x_min, x_max], `fill_value` outside (ValueError if bounds_error).  The call arguments are recorded."""

    def __init__(self, x, y, kind="linear", axis=-1, copy=True, bounds_error=None, fill_value=np.nan, assume_sorted=False):
        if kind != "linear":
            raise symnp.Inconclusive("interp1d stub: only linear interpolation is modelled")
        x = np.asarray(x); y = np.asarray(y)
        if x.ndim != 1:
            raise ValueError("the x array must have exactly one dimension.")
        if y.shape[axis] != x.shape[0]:
            raise ValueError("x and y arrays must be equal in length along interpolation axis.")
        self.rec = dict(x=x, y=y, axis=axis, fill_value=fill_value, bounds_error=bounds_error, queries=[])
        INTERP_CALLS.append(self.rec)
        perm = list(range(len(x))) if assume_sorted else _sorted_perm(list(x))
        self.x = [x[i] for i in perm]
        self.y = np.take(np.moveaxis(np.asarray(y, dtype=object), axis, -1), perm, axis=-1)
        self.axis = axis
        self.fill = fill_value
        self.bounds_error = bool(bounds_error) if bounds_error is not None else (fill_value is np.nan)

    def __call__(self, xnew):
        xnew = np.asarray(xnew)
        if xnew.ndim != 1:
            raise symnp.Inconclusive("interp1d stub: 1-D query only")
        self.rec["queries"].append(xnew)
        xs = self.x
        out = np.empty(self.y.shape[:-1] + (len(xnew),), dtype=object)
        for q, xq in enumerate(xnew):
            xq = xq if isinstance(xq, S) else S(lift(xq))
            inside = (xq >= xs[0]) & (xq <= xs[-1])
            if self.bounds_error and not bool(inside):
                raise ValueError("A value in x_new is out of the interpolation range.")
            for idx in np.ndindex(*self.y.shape[:-1]):
                yy = self.y[idx]
                val = lift(self.fill)
                # last segment first so that the If-chain prefers the lowest matching segment like searchsorted
                for k in range(len(xs) - 2, -1, -1):
                    x0, x1 = lift(xs[k]), lift(xs[k + 1])
                    seg = lift(yy[k]) + (lift(yy[k + 1]) - lift(yy[k])) * (xq.t - x0) / (x1 - x0)
                    val = z3.If(z3.And(xq.t >= x0, xq.t <= x1), seg, val)
                out[idx + (q,)] = S(z3.simplify(val))
        return np.moveaxis(out, -1, self.axis).view(SymArray)


def interp_patches():
    m = importlib.import_module("dreye.api.domain")
    return [(m, "interp1d", Interp1dStub)]


# ----------------------------------------------------------------------------- quadprog

QP_CALLS = []


def solve_qp_stub(G, a, C=None, b=None, meq=0, factorized=False):
    """quadprog.solve_qp contract (Goldfarb-Idnani): returns argmin 1/2 x^T G x - a^T x  s.t.  C^T x >= b (first meq rows equalities);
    factorized=True means the first argument is R^-1 with G = R^T R.  The solution is a fresh point with the constraints assumed; the
    optimality clause is used by the harness through explicit instances (QP_CALLS)."""
    G = np.asarray(G); a = np.asarray(a); C = np.asarray(C); b = np.asarray(b)
    n = len(a)
    if factorized:
        Rinv = symnp._exactify(G)
        Gm = symnp.linalg_inv(np.asarray(Rinv) @ np.asarray(Rinv).T) if not _is_identity(Rinv) else Rinv
    else:
        Gm = symnp._exactify(G)
    e = E()
    k = len(QP_CALLS)
    x = np.empty(n, dtype=object)
    for i in range(n):
        x[i] = S(z3.Real(f"qp!{k}_{i}"))
    x = x.view(SymArray)
    Cm = symnp._exactify(C); bv = symnp._exactify(b)
    cons = []
    for j in range(Cm.shape[1]):
        lhs = z3.Sum([lift(Cm[i, j]) * x[i].t for i in range(n)])
        cons.append(lhs == lift(bv[j]) if j < meq else lhs >= lift(bv[j]))
    e.assume(z3.And(cons) if cons else z3.BoolVal(True))
    QP_CALLS.append(dict(G=Gm, a=symnp._exactify(a), C=Cm, b=bv, meq=meq, x=x))
    return x, None, None, None, None, None


def _is_identity(M):
    M = np.asarray(M)
    if M.ndim != 2 or M.shape[0] != M.shape[1]:
        return False
    for i in range(M.shape[0]):
        for j in range(M.shape[1]):
            v = z3.simplify(lift(M[i, j]))
            if not z3.is_rational_value(v) or v.numerator_as_long() != (v.denominator_as_long() if i == j else 0):
                return False
    return True


def qp_objective(rec, x):
    """1/2 x^T G x - a^T x of a recorded call at point x"""
    G, a = np.asarray(rec["G"]), np.asarray(rec["a"])
    n = len(a)
    t = 0
    for i in range(n):
        for j in range(n):
            t = t + lift(G[i, j]) * lift(x[i]) * lift(x[j]) / 2
        t = t - lift(a[i]) * lift(x[i])
    return t


def qp_feasible(rec, x):
    Cm, bv, meq = np.asarray(rec["C"]), np.asarray(rec["b"]), rec["meq"]
    cons = []
    for j in range(Cm.shape[1]):
        lhs = z3.Sum([lift(Cm[i, j]) * lift(x[i]) for i in range(len(x))])
        cons.append(lhs == lift(bv[j]) if j < meq else lhs >= lift(bv[j]))
    return z3.And(cons) if cons else z3.BoolVal(True)


def qp_patches():
    m = importlib.import_module("dreye.api.project")
    return [(m, "solve_qp", solve_qp_stub), (m, "ConvexHull", ConvexHullStub), (m, "Delaunay", DelaunayStub)]
