"""Contract stubs for compiled components (DESIGN.md section 3)."""
import importlib

import numpy as np
import z3

from . import symnp
from .symnp import E, S, SB, SymArray, lift, wrap


def normalize_stub(X, norm="l2", axis=1, copy=True, return_norm=False):
    """sklearn.preprocessing.normalize(X, 'l1', axis=1): rows divided by the sum of absolute values; all-zero rows unchanged"""
    if not symnp._has_sym(X):
        from sklearn.preprocessing import normalize
        return normalize(X, norm=norm, axis=axis, copy=copy, return_norm=return_norm)
    if norm != "l1" or axis != 1 or return_norm:
        raise symnp.Inconclusive("normalize stub: only norm='l1', axis=1 is modelled")
    X = np.asarray(X).view(np.ndarray)
    if X.ndim != 2:
        raise ValueError(f"Expected 2D array, got {X.ndim}D array instead")
    out = np.empty(X.shape, dtype=object)
    for i in range(X.shape[0]):
        tot = 0
        for v in X[i]:
            tot = tot + abs(v if isinstance(v, S) else S(lift(v)))
        den = S(z3.If(tot.t == 0, z3.RealVal(1), tot.t)) if isinstance(tot, S) else (tot if tot != 0 else 1)
        for j in range(X.shape[1]):
            out[i, j] = X[i, j] / den
    return out.view(SymArray)


def normalize_patches():
    P = []
    for name in ("dreye.api.barycentric", "dreye.api.estimator"):
        m = importlib.import_module(name)
        P.append((m, "normalize", normalize_stub))
    return P
