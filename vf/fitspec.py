"""Harness-side reference model shared by the fitting properties (C04, C05, C07-C10, C15).

Everything here is written independently of dreye: plain loops over entries, usable on float arrays and on
object arrays of symbolic reals alike.
"""
import importlib

import numpy as np
import z3

from vf import harness, symcp, symnp
from vf.symnp import S, SB, lift


def fit_patches():
    P = harness.standard_patches()
    L = importlib.import_module("dreye.api.optimize.lsq_linear")
    CV = importlib.import_module("dreye.api.convex")
    P.append((L, "cp", symcp))
    P.append((CV, "cp", symcp))
    return P


def vec(a, n):
    """broadcast scalar / length-1 / length-n to a python list of n entries"""
    if a is None:
        return None
    a = np.asarray(a, dtype=object if symnp._has_sym(a) else float)
    if a.ndim == 0:
        return [a[()]] * n
    a = a.ravel()
    if a.size == 1:
        return [a[0]] * n
    assert a.size == n
    return list(a)


def effective_model(A, K, base, kkind):
    """rows of K A and K baseline written out entry by entry.  returns (Aeff list-of-lists, beff list)"""
    A = np.asarray(A)
    m, n = A.shape
    b = vec(base, m) if base is not None else [0] * m
    if K is None or kkind == "none":
        return [[A[i, j] for j in range(n)] for i in range(m)], list(b)
    K = np.asarray(K)
    if kkind in ("scalar", "vec"):
        k = vec(K, m)
        return [[k[i] * A[i, j] for j in range(n)] for i in range(m)], [k[i] * b[i] for i in range(m)]
    Aeff = [[_sum([K[i, l] * A[l, j] for l in range(m)]) for j in range(n)] for i in range(m)]
    beff = [_sum([K[i, l] * b[l] for l in range(m)]) for i in range(m)]
    return Aeff, beff


def _sum(xs):
    t = xs[0]
    for x in xs[1:]:
        t = t + x
    return t


def predict(Aeff, beff, x):
    return [_sum([Aeff[i][j] * x[j] for j in range(len(x))]) + beff[i] for i in range(len(Aeff))]


def sq_error(Aeff, beff, w, b, x):
    p = predict(Aeff, beff, x)
    return _sum([(w[i] * (p[i] - b[i])) * (w[i] * (p[i] - b[i])) for i in range(len(p))])


def in_bounds(M, x, lb, ub):
    gs = []
    for j in range(len(x)):
        if lb is not None:
            gs.append(M.le(lb[j], x[j]))
        if ub is not None:
            gs.append(M.le(x[j], ub[j]))
    return M.conj(*gs) if gs else True


def weights(W, i, m):
    """row i of the weights given None / per-receptor (m,) / per-sample (rows, m)"""
    if W is None:
        return [1] * m
    W = np.asarray(W)
    if W.ndim == 1:
        return list(W)
    return list(W[i])


def mk_system(M, m, n, kkind, bkind, lbkind, ubkind, *, A_sample=None):
    """symbolic (or sampled) system: A, K, baseline, lb, ub with the standing assumptions lb <= ub."""
    A = M.real("A", (m, n), sample=A_sample or (lambda rng, shp: rng.uniform(0.2, 2.0, size=shp)))
    K = {"none": lambda: None, "scalar": lambda: M.real("K", (1,), sample=lambda r, s: r.uniform(0.5, 2.0, size=s)),
         "vec": lambda: M.real("K", (m,), sample=lambda r, s: r.uniform(0.5, 2.0, size=s)),
         "mat": lambda: M.real("K", (m, m), sample=lambda r, s: np.eye(s[0]) + r.uniform(-0.2, 0.2, size=s))}[kkind]()
    base = {"none": lambda: None, "scalar": lambda: M.real("base", (1,), sample=lambda r, s: r.uniform(0.1, 0.5, size=s)),
            "vec": lambda: M.real("base", (m,), sample=lambda r, s: r.uniform(0.1, 0.5, size=s))}[bkind]()
    lb = {"default": lambda: None, "zero": lambda: np.zeros(n), "pos": lambda: M.real("lb", (n,), sample=lambda r, s: r.uniform(0.05, 0.3, size=s)),
          "any": lambda: M.real("lb", (n,), sample=lambda r, s: r.uniform(-0.5, 0.3, size=s)),
          "poswide": lambda: M.real("lb", (n,), sample=lambda r, s: r.choice([0.1, 1.5, 2.0], size=s))}[lbkind]()
    ub = {"default": lambda: None, "inf": lambda: np.full(n, np.inf), "fin": lambda: M.real("ub", (n,), sample=lambda r, s: r.uniform(1.0, 3.0, size=s))}[ubkind]()
    if lbkind in ("pos", "poswide"):
        for v in lb:
            M.assume(v >= 0)
    lbl = list(lb) if lb is not None else [0] * n
    ubl = list(ub) if (ub is not None and ubkind == "fin") else None
    if ubl is not None:
        for j in range(n):
            M.assume(ubl[j] >= lbl[j])
    return A, K, base, lb, ub, lbl, ubl


def row_block_alt(rec, var, row_in_batch, n, xc_row):
    """competitor for the stacked problem: x* with the block of one row replaced by xc_row"""
    xs = np.array(rec["xstar"][var]).copy()
    flat = xs.reshape(-1)
    flat[row_in_batch * n:(row_in_batch + 1) * n] = list(xc_row)
    return {var: flat.reshape(xs.shape).view(symnp.SymArray)}


def scipy_bvls(Aeff, beff, w, b, lb, ub):
    """independent numeric oracle for the bounded weighted least-squares optimum (float mode only)"""
    from scipy.optimize import lsq_linear as sls
    Ae = np.array(Aeff, dtype=float); be = np.array(beff, dtype=float); w = np.array(w, dtype=float); b = np.array(b, dtype=float)
    lo = np.array(lb, dtype=float)
    hi = np.array(ub, dtype=float) if ub is not None else np.full(len(lo), np.inf)
    hi = np.where(hi <= lo, lo + 1e-12 * (1 + np.abs(lo)), hi)  # scipy wants lb < ub strictly
    r = sls(Ae * w[:, None], w * (b - be), bounds=(lo, hi), method="bvls", tol=1e-12)
    return r.x


# ----------------------------------------------------------------------------- per-model documented objectives

def _ln(M, v):
    if M.symbolic:
        return S(symcp._LOG(lift(v)))
    return float(np.log(v)) if v > 0 else float("nan")


def _abs(M, v):
    return abs(v)


def _max(M, vs):
    if M.symbolic:
        r = vs[0]
        for v in vs[1:]:
            r = symnp.smax(r, v)
        return r
    return max(float(v) for v in vs)


def excit(t):
    return t / (1 + t)


def model_objective(M, model, Aeff, beff, w, b, x):
    """documented per-sample objective of each fitting model at intensities x (smaller is better)"""
    if model == "gaussian":
        return sq_error(Aeff, beff, w, b, x)
    q = predict(Aeff, beff, x)
    if model == "poisson":
        # weighted Poisson negative log-likelihood of target b given predicted total capture q (constant terms dropped)
        return _sum([w[i] * (q[i] - b[i] * _ln(M, q[i])) for i in range(len(q))])
    if model == "excitation":
        # largest absolute excitation difference |e(u) - e(v)|, e(t) = t/(1+t), u = w*b (target), v = w*q (prediction).
        # Written in the equivalent form |u - v| / ((1+u)(1+v)); the equivalence for u, v >= 0 is the separate 2-variable
        # lemma `excitation_lemma` and u, v >= 0 is the goal `excitation_nonneg`.
        return _max(M, [_abs(M, w[i] * b[i] - w[i] * q[i]) / ((1 + w[i] * b[i]) * (1 + w[i] * q[i])) for i in range(len(q))])
    raise ValueError(model)


def excitation_lemma(M):
    """for all u, v >= 0:  |u - v| / ((1+u)(1+v)) == |u/(1+u) - v/(1+v)|"""
    if not M.symbolic:
        return True
    u, v = z3.Real("lem_u"), z3.Real("lem_v")
    ab = lambda t: z3.If(t >= 0, t, -t)
    return SB(z3.ForAll([u, v], z3.Implies(z3.And(u >= 0, v >= 0), ab(u - v) / ((1 + u) * (1 + v)) == ab(u / (1 + u) - v / (1 + v)))))


def excitation_nonneg(M, Aeff, beff, w, b, x):
    q = predict(Aeff, beff, x)
    return M.conj(*[M.le(0, w[i] * b[i]) for i in range(len(q))], *[M.le(0, w[i] * q[i]) for i in range(len(q))])


def model_domain(M, model, Aeff, beff, x):
    """domain of the documented objective (Poisson likelihood needs a positive predicted capture)"""
    if model == "poisson":
        q = predict(Aeff, beff, x)
        return M.conj(*[M.le(0, qi) for qi in q], *[(SB(lift(qi) != 0) if M.symbolic else bool(qi != 0)) for qi in q])
    return True


def call_model(model, A, B, lb, ub, W, K, base, batch_size):
    from dreye.api.optimize.lsq_linear import lsq_linear, lsq_linear_excitation
    if model in ("gaussian", "poisson"):
        return lsq_linear(A, B, lb=lb, ub=ub, W=W, K=K, baseline=base, batch_size=batch_size, model=model, return_pred=True)
    if model == "excitation":
        return lsq_linear_excitation(A, B, lb=lb, ub=ub, W=W, K=K, baseline=base, batch_size=batch_size, return_pred=True)
    raise ValueError(model)


def assume_nonneg_system(M, A, K, base, B, kkind):
    """quantifier of C07 / DCP domain of the poisson and excitation formulations: A >= 0, targets >= 0, baseline >= 0, K > 0 (scalar/vector)"""
    for v in np.asarray(A).ravel():
        M.assume(v >= 0)
    for v in np.asarray(B).ravel():
        M.assume(v >= 0)
    if base is not None:
        for v in np.asarray(base).ravel():
            M.assume(v >= 0)
    if K is not None:
        for v in np.asarray(K).ravel():
            M.assume(v > 0)


def excitation_oracle(Aeff, beff, w, b, lb, ub, iters=60):
    """independent numeric optimum of max_j |e(w b_j) - e(w q_j(x))| over the box (bisection on the level + LP feasibility)"""
    from scipy.optimize import linprog
    Ae = np.array(Aeff, dtype=float); be = np.array(beff, dtype=float); w = np.array(w, dtype=float); b = np.array(b, dtype=float)
    u = w * b
    eu = u / (1 + u)
    n = Ae.shape[1]
    bounds = [(float(lb[j]), None if ub is None else float(ub[j])) for j in range(n)]

    def feasible(t):
        lo_e = np.maximum(eu - t, 0.0); hi_e = np.minimum(eu + t, 1 - 1e-12)
        vlo = lo_e / (1 - lo_e); vhi = hi_e / (1 - hi_e)
        # vlo <= w*(Ae x + be) <= vhi
        G = np.vstack([Ae * w[:, None], -Ae * w[:, None]])
        h = np.concatenate([vhi - w * be, -(vlo - w * be)])
        r = linprog(np.zeros(n), A_ub=G, b_ub=h, bounds=bounds, method="highs")
        return r.status == 0
    lo, hi = 0.0, 1.0
    if feasible(0.0):
        return 0.0
    for _ in range(iters):
        mid = 0.5 * (lo + hi)
        if feasible(mid):
            hi = mid
        else:
            lo = mid
    return hi


def sos_lemma(M, k):
    """closed lemma used to pass from 'squared error' statements to statements about the residuals:
    for all reals r_1..r_k and w_1..w_k > 0:  sum (w_i r_i)^2 >= 0, and it is 0 only if every r_i is 0"""
    if not M.symbolic:
        return True
    r = [z3.Real(f"sos_r{i}") for i in range(k)]
    w = [z3.Real(f"sos_w{i}") for i in range(k)]
    tot = z3.Sum([(w[i] * r[i]) * (w[i] * r[i]) for i in range(k)])
    return SB(z3.ForAll(r + w, z3.Implies(z3.And([wi > 0 for wi in w]), z3.And(tot >= 0, z3.Implies(tot == 0, z3.And([ri == 0 for ri in r]))))))


def poisson_oracle(Aeff, beff, w, b, lb, ub):
    """independent numeric minimum of sum_j w_j (q_j - b_j ln q_j), q = Aeff x + beff, over the box (convex; L-BFGS-B with gradient)"""
    from scipy.optimize import minimize
    Ae = np.array(Aeff, dtype=float); be = np.array(beff, dtype=float); w = np.array(w, dtype=float); b = np.array(b, dtype=float)
    lo = np.array(lb, dtype=float)
    hi = np.array(ub, dtype=float) if ub is not None else np.full(len(lo), np.inf)

    def f(x):
        q = np.maximum(Ae @ x + be, 1e-300)
        return float(np.sum(w * (q - b * np.log(q)))), Ae.T @ (w * (1 - b / q))
    best = np.inf
    for x0 in (np.where(np.isfinite(hi), 0.5 * (lo + hi), lo + 1.0), lo + 1e-3, np.where(np.isfinite(hi), hi, lo + 5.0)):
        r = minimize(f, x0, jac=True, bounds=list(zip(lo, [None if not np.isfinite(h) else h for h in hi])), method="L-BFGS-B",
                     options=dict(ftol=1e-14, gtol=1e-10, maxiter=2000))
        best = min(best, float(r.fun))
    return best
