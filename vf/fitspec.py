"""Harness-side reference model shared by the fitting properties (C04, C05, C07-C10, C15).

Everything here is written independently of dreye: plain loops over entries, usable on float arrays and on
object arrays of symbolic reals alike.
"""
import importlib

import numpy as np
import z3

from vf import harness, symcp, symnp
from vf.symnp import S, SB, lift


def fit_patches():
    P = harness.standard_patches()
    L = importlib.import_module("dreye.api.optimize.lsq_linear")
    CV = importlib.import_module("dreye.api.convex")
    P.append((L, "cp", symcp))
    P.append((CV, "cp", symcp))
    return P


def vec(a, n):
    """broadcast scalar / length-1 / length-n to a python list of n entries"""
    if a is None:
        return None
    a = np.asarray(a, dtype=object if symnp._has_sym(a) else float)
    if a.ndim == 0:
        return [a[()]] * n
    a = a.ravel()
    if a.size == 1:
        return [a[0]] * n
    assert a.size == n
    return list(a)


def effective_model(A, K, base, kkind):
    """rows of K A and K baseline written out entry by entry.  returns (Aeff list-of-lists, beff list)"""
    A = np.asarray(A)
    m, n = A.shape
    b = vec(base, m) if base is not None else [0] * m
    if K is None or kkind == "none":
        return [[A[i, j] for j in range(n)] for i in range(m)], list(b)
    K = np.asarray(K)
    if kkind in ("scalar", "vec"):
        k = vec(K, m)
        return [[k[i] * A[i, j] for j in range(n)] for i in range(m)], [k[i] * b[i] for i in range(m)]
    Aeff = [[_sum([K[i, l] * A[l, j] for l in range(m)]) for j in range(n)] for i in range(m)]
    beff = [_sum([K[i, l] * b[l] for l in range(m)]) for i in range(m)]
    return Aeff, beff


def _sum(xs):
    t = xs[0]
    for x in xs[1:]:
        t = t + x
    return t


def predict(Aeff, beff, x):
    return [_sum([Aeff[i][j] * x[j] for j in range(len(x))]) + beff[i] for i in range(len(Aeff))]


def sq_error(Aeff, beff, w, b, x):
    p = predict(Aeff, beff, x)
    return _sum([(w[i] * (p[i] - b[i])) * (w[i] * (p[i] - b[i])) for i in range(len(p))])


def in_bounds(M, x, lb, ub):
    gs = []
    for j in range(len(x)):
        if lb is not None:
            gs.append(M.le(lb[j], x[j]))
        if ub is not None:
            gs.append(M.le(x[j], ub[j]))
    return M.conj(*gs) if gs else True


def weights(W, i, m):
    """row i of the weights given None / per-receptor (m,) / per-sample (rows, m)"""
    if W is None:
        return [1] * m
    W = np.asarray(W)
    if W.ndim == 1:
        return list(W)
    return list(W[i])


def mk_system(M, m, n, kkind, bkind, lbkind, ubkind, *, A_sample=None):
    """symbolic (or sampled) system: A, K, baseline, lb, ub with the standing assumptions lb <= ub."""
    A = M.real("A", (m, n), sample=A_sample or (lambda rng, shp: rng.uniform(0.2, 2.0, size=shp)))
    K = {"none": lambda: None, "scalar": lambda: M.real("K", (1,), sample=lambda r, s: r.uniform(0.5, 2.0, size=s)),
         "vec": lambda: M.real("K", (m,), sample=lambda r, s: r.uniform(0.5, 2.0, size=s)),
         "mat": lambda: M.real("K", (m, m), sample=lambda r, s: np.eye(s[0]) + r.uniform(-0.2, 0.2, size=s))}[kkind]()
    base = {"none": lambda: None, "scalar": lambda: M.real("base", (1,), sample=lambda r, s: r.uniform(0.1, 0.5, size=s)),
            "vec": lambda: M.real("base", (m,), sample=lambda r, s: r.uniform(0.1, 0.5, size=s))}[bkind]()
    lb = {"default": lambda: None, "zero": lambda: np.zeros(n), "pos": lambda: M.real("lb", (n,), sample=lambda r, s: r.uniform(0.05, 0.3, size=s)),
          "any": lambda: M.real("lb", (n,), sample=lambda r, s: r.uniform(-0.5, 0.3, size=s))}[lbkind]()
    ub = {"default": lambda: None, "inf": lambda: np.full(n, np.inf), "fin": lambda: M.real("ub", (n,), sample=lambda r, s: r.uniform(1.0, 3.0, size=s))}[ubkind]()
    if lbkind == "pos":
        for v in lb:
            M.assume(v >= 0)
    lbl = list(lb) if lb is not None else [0] * n
    ubl = list(ub) if (ub is not None and ubkind == "fin") else None
    if ubl is not None:
        for j in range(n):
            M.assume(ubl[j] >= lbl[j])
    return A, K, base, lb, ub, lbl, ubl


def row_block_alt(rec, var, row_in_batch, n, xc_row):
    """competitor for the stacked problem: x* with the block of one row replaced by xc_row"""
    xs = np.array(rec["xstar"][var]).copy()
    flat = xs.reshape(-1)
    flat[row_in_batch * n:(row_in_batch + 1) * n] = list(xc_row)
    return {var: flat.reshape(xs.shape).view(symnp.SymArray)}


def scipy_bvls(Aeff, beff, w, b, lb, ub):
    """independent numeric oracle for the bounded weighted least-squares optimum (float mode only)"""
    from scipy.optimize import lsq_linear as sls
    Ae = np.array(Aeff, dtype=float); be = np.array(beff, dtype=float); w = np.array(w, dtype=float); b = np.array(b, dtype=float)
    lo = np.array(lb, dtype=float)
    hi = np.array(ub, dtype=float) if ub is not None else np.full(len(lo), np.inf)
    r = sls(Ae * w[:, None], w * (b - be), bounds=(lo, hi), method="bvls", tol=1e-12)
    return r.x
