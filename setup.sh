#!/bin/sh
# Build the overlay interpreter used by every check: /venv (the repository's environment, untouched)
# + z3-solver from the offline wheelhouse.  Idempotent, offline.
set -e
cd "$(dirname "$0")"
V=.venv
if [ ! -x "$V/bin/python" ] || ! "$V/bin/python" -c "import z3, numpy, cvxpy" 2>/dev/null; then
  rm -rf "$V"
  /venv/bin/python -m venv "$V"
  SP=$("$V/bin/python" -c "import site; print(site.getsitepackages()[0])")
  printf "import site; site.addsitedir('/venv/lib/python3.12/site-packages')\n" > "$SP/_verif_overlay.pth"
  PIP_NO_INDEX=1 "$V/bin/python" -m pip install -q --no-index --find-links /opt/veriftools/wheels z3-solver
fi
"$V/bin/python" -c "import z3, numpy, cvxpy; print('verif overlay ok: z3', z3.get_version_string(), 'numpy', numpy.__version__)"
